//go:build verif

package querylog

// C07 — the properties: histories, constructed layouts with systematic paging,
// hostile request parameters, the stored-line round trip, frozen regressions.

import (
	"context"
	"encoding/json"
	"fmt"
	"net"
	"net/http"
	"net/url"
	"reflect"
	"runtime"
	"runtime/debug"
	"strconv"
	"strings"
	"testing"
	"time"

	"github.com/AdguardTeam/AdGuardHome/internal/filtering"
	"github.com/AdguardTeam/AdGuardHome/internal/vfkit"
	"github.com/AdguardTeam/golibs/logutil/slogutil"
	"github.com/miekg/dns"
	"pgregory.net/rapid"
)

// vfC07DrawZone sometimes changes the UTC offset new entries are stamped with
// (a daylight-saving change or a moved machine between two start-ups).
func (s *vfC07Sys) drawZone(t *rapid.T) {
	if rapid.IntRange(0, 7).Draw(t, "zone_change") == 0 {
		s.zone = rapid.SampledFrom(vfC07Zones).Draw(t, "zone")
	}
}

func (s *vfC07Sys) drawRecord(t *rapid.T) {
	s.drawZone(t)
	r := vfC07DrawRec(t, "e")
	s.record(r, rapid.SampledFrom(vfC07Gaps).Draw(t, "gap"))
}

// drawReads runs a drawn plan of reads against the model.
func (s *vfC07Sys) drawReads(t *rapid.T, filters, sizes int) {
	n := len(s.all())
	full := s.readAll(vfC07Filter{}, true)
	vfC07.Class("read:all")
	for k := 0; k < sizes; k++ {
		size := rapid.IntRange(1, max(1, min(n+1, 9))).Draw(t, "page_size")
		if rapid.Bool().Draw(t, "by_cursor") {
			s.pageByCursor(vfC07Filter{}, size, full)
		} else {
			s.pageByOffset(vfC07Filter{}, size, full)
		}
	}
	if n == 0 {
		filters = min(filters, 1)
	}
	for k := 0; k < filters; k++ {
		f := vfC07DrawTerm(t, "term", s.all(), s.clients)
		sel := s.readAll(f, rapid.Bool().Draw(t, "with_limit"))
		vfC07.Class("filter:" + f.Kind)
		if len(sel) > 0 && len(sel) < n {
			vfC07.Class("filter_selects:some")
		} else if len(sel) == 0 {
			vfC07.Class("filter_selects:none")
		} else {
			vfC07.Class("filter_selects:all")
		}
		if len(sel) > 1 && rapid.Bool().Draw(t, "page_filtered") {
			size := rapid.IntRange(1, min(len(sel), 6)).Draw(t, "fpage_size")
			if rapid.Bool().Draw(t, "fby_cursor") {
				s.pageByCursor(f, size, sel)
			} else {
				s.pageByOffset(f, size, sel)
			}
		}
	}
}

// vfC07Machine is the rapid state machine over one query log.
type vfC07Machine struct {
	s *vfC07Sys
}

func (m *vfC07Machine) invariant(t *rapid.T) {
	m.s.tb = t
	m.s.readAll(vfC07Filter{}, true)
	m.s.checkFiles()
}

func (m *vfC07Machine) actRecord(t *rapid.T) { m.s.tb = t; m.s.drawRecord(t) }

func (m *vfC07Machine) actBurst(t *rapid.T) {
	m.s.tb = t
	n := rapid.IntRange(2, 7).Draw(t, "burst")
	for i := 0; i < n; i++ {
		m.s.drawRecord(t)
	}
}

func (m *vfC07Machine) actFlush(t *rapid.T) { m.s.tb = t; m.s.flush() }

func (m *vfC07Machine) actRotate(t *rapid.T) {
	m.s.tb = t
	if !m.s.fileEnabled {
		t.Skip("memory only")
	}
	m.s.rotate(rapid.Bool().Draw(t, "via_check"))
}

func (m *vfC07Machine) actClear(t *rapid.T) {
	m.s.tb = t
	if rapid.IntRange(0, 2).Draw(t, "really_clear") != 0 {
		t.Skip("rarely")
	}
	m.s.clear()
}

// actRecordThenClear: a clear that arrives right after the queries that filled
// the memory buffer, before the flush they started has run (one processor, so
// the flush goroutine cannot start until this one yields).  Everything is
// gone afterwards either way; the started flush must still come to an end.
func (m *vfC07Machine) actRecordThenClear(t *rapid.T) {
	m.s.tb = t
	if !m.s.fileEnabled || !m.s.enabled {
		t.Skip("no flush to race with")
	}
	goroutines := runtime.NumGoroutine()
	prev := runtime.GOMAXPROCS(1)
	m.s.noAwait = true
	n := rapid.IntRange(1, int(min(m.s.memSize, 6))+1).Draw(t, "records_before_clear")
	for i := 0; i < n; i++ {
		m.s.drawRecord(t)
	}
	m.s.noAwait = false
	m.s.clear()
	runtime.GOMAXPROCS(prev)
	// the flush goroutine that was started must have run (and found nothing)
	// before anything else is recorded, or it would write the next query early
	for start := time.Now(); runtime.NumGoroutine() > goroutines; {
		if time.Since(start) > 30*time.Second {
			t.Fatalf("VERIF-INCONCLUSIVE the flush goroutine started before the clear has not ended after 30 s")
		}
		time.Sleep(50 * time.Microsecond)
	}
	m.s.awaitFlush()
	vfC07.Class("clear_right_after_filling_the_buffer")
}

func (m *vfC07Machine) actConfigure(t *rapid.T) {
	m.s.tb = t
	enabled := rapid.IntRange(0, 3).Draw(t, "enabled") != 0
	if !m.s.enabled {
		enabled = rapid.IntRange(0, 3).Draw(t, "reenable") != 0
	}
	m.s.configure(enabled, rapid.IntRange(0, 3).Draw(t, "anonymise") == 0, rapid.IntRange(0, 3).Draw(t, "legacy_api") == 0)
}

func (m *vfC07Machine) actRestart(t *rapid.T) {
	m.s.tb = t
	if !m.s.fileEnabled {
		t.Skip("memory only")
	}
	m.s.restart(vfC07DrawMemSize(t, true))
}

func (m *vfC07Machine) actReads(t *rapid.T) {
	m.s.tb = t
	m.s.drawReads(t, rapid.IntRange(0, 2).Draw(t, "n_filters"), rapid.IntRange(0, 2).Draw(t, "n_sizes"))
}

func vfC07DrawMemSize(t *rapid.T, fileEnabled bool) (n uint) {
	lo := 0
	if !fileEnabled {
		lo = 1
	}
	switch rapid.IntRange(0, 5).Draw(t, "mem_size_kind") {
	case 0:
		return uint(lo)
	case 1:
		return 1
	case 2:
		return uint(rapid.IntRange(20, 50).Draw(t, "mem_size_big"))
	default:
		return uint(rapid.IntRange(max(lo, 2), 9).Draw(t, "mem_size"))
	}
}

// finish does the accounting of a finished case.
func (s *vfC07Sys) finish(kind string) {
	vfC07.Eval()
	vfC07.Class("case:" + kind)
	vfC07.ClassN("requests", s.requests)
	vfC07.ClassN("async_flushes_awaited", s.asyncFlushes)
	for _, c := range []struct {
		on   bool
		name string
	}{
		{s.didRotate, "rotation"}, {s.didRotateDrop, "rotation_ages_out_entries"}, {s.didRestart, "restart"},
		{s.didClear, "clear"}, {s.didDisable, "logging_disabled_for_a_while"}, {!s.fileEnabled, "memory_only"},
		{s.memSize == 0, "mem_size_0"}, {len(s.crossings) > 0, "with_boundary_crossing_paged_read"},
	} {
		if c.on {
			vfC07.Class(kind + ":" + c.name)
		}
	}
	vfC07.Class(fmt.Sprintf("%s:final_locations=%d", kind, s.locations()))
	if len(s.crossings) >= 2 && vfC07.WantSample(kind) {
		vfC07.Sample(kind, s.sample())
	}
}

// TestVFC07History: for all histories of record / flush / rotate / clear /
// settings change / restart, after every step one large read returns exactly
// the retained entries, each once, newest first, each in the form it was
// recorded with (the same form wherever it is stored); the files hold what the
// model places in them; drawn filters select exactly the entries the reference
// selects; cursor and offset paging add up to the unpaged sequence.
func TestVFC07History(t *testing.T) {
	vfkit.Begin(t)
	rapid.Check(t, func(t *rapid.T) {
		fileEnabled := rapid.IntRange(0, 7).Draw(t, "file_enabled") != 0
		s := vfC07NewSys(t, vfC07DrawClients(t), vfC07DrawMemSize(t, fileEnabled), fileEnabled, true,
			rapid.IntRange(0, 5).Draw(t, "anonymise_at_start") == 0)
		defer s.close()
		m := &vfC07Machine{s: s}

		t.Repeat(map[string]func(*rapid.T){
			"":          m.invariant,
			"record":    m.actRecord,
			"record_":   m.actRecord,
			"record__":  m.actRecord,
			"burst":     m.actBurst,
			"burst_":    m.actBurst,
			"flush":     m.actFlush,
			"rotate":    m.actRotate,
			"clear":     m.actClear,
			"rec_clear": m.actRecordThenClear,
			"configure": m.actConfigure,
			"restart":   m.actRestart,
			"reads":     m.actReads,
			"reads_":    m.actReads,
		})

		s.tb = t
		s.drawReads(t, 2, 2)
		s.finish("history")
	})
}

// TestVFC07Layout: the retained entries are placed by construction in the
// rotated file, the current file and memory (0..6 each), then every page size
// from 1 to n+1 is read both by cursor and by offset, without a filter and with
// drawn filters.
func TestVFC07Layout(t *testing.T) {
	vfkit.Begin(t)
	rapid.Check(t, func(t *rapid.T) {
		nr := rapid.IntRange(0, 6).Draw(t, "n_rotated")
		nf := rapid.IntRange(0, 6).Draw(t, "n_file")
		nm := rapid.IntRange(0, 6).Draw(t, "n_memory")
		memSize := uint(nm + 1 + rapid.IntRange(0, 3).Draw(t, "mem_slack"))
		s := vfC07NewSys(t, vfC07DrawClients(t), memSize, true, true, rapid.IntRange(0, 7).Draw(t, "anonymise") == 0)
		defer s.close()

		for i := 0; i < nr; i++ {
			s.drawRecord(t)
		}
		s.flush()
		s.rotate(rapid.Bool().Draw(t, "via_check"))
		if rapid.IntRange(0, 3).Draw(t, "restart_1") == 0 {
			s.restart(memSize)
		}
		for i := 0; i < nf; i++ {
			s.drawRecord(t)
		}
		s.flush()
		if rapid.IntRange(0, 3).Draw(t, "restart_2") == 0 {
			s.restart(memSize)
		}
		for i := 0; i < nm; i++ {
			s.drawRecord(t)
		}
		if len(s.rot) != nr || len(s.cur) != nf || len(s.mem) != nm {
			// more entries than mem_size in a phase flush by themselves: the
			// layout is still the one the model tracks
			vfC07.Class("layout:auto_flushed")
		}
		s.checkFiles()

		n := len(s.all())
		full := s.readAll(vfC07Filter{}, true)
		if n <= 500 {
			s.readAll(vfC07Filter{}, false)
		}
		for size := 1; size <= n+1; size++ {
			if n > 8 && size > 3 && size < n-1 && rapid.IntRange(0, 2).Draw(t, fmt.Sprintf("skip_size_%d", size)) != 0 {
				continue
			}
			s.pageByCursor(vfC07Filter{}, size, full)
			s.pageByOffset(vfC07Filter{}, size, full)
		}
		nflt := rapid.IntRange(1, 4).Draw(t, "n_filters")
		for k := 0; k < nflt; k++ {
			f := vfC07DrawTerm(t, "term", s.all(), s.clients)
			sel := s.readAll(f, true)
			vfC07.Class("filter:" + f.Kind)
			for size := 1; size <= min(len(sel), 4); size++ {
				s.pageByCursor(f, size, sel)
				s.pageByOffset(f, size, sel)
			}
		}
		// every status filter once
		for _, st := range vfC07Statuses {
			s.readAll(vfC07Filter{Kind: "status_only", Status: st}, true)
		}
		vfC07.Class(fmt.Sprintf("layout:locations=%d", s.locations()))
		s.finish("layout")
	})
}

// ---- hostile parameters ----

var (
	vfC07HostileInts = []string{
		"", "0", "1", "2", "3", "7", "500", "-1", "-2", "-7", "9223372036854775807", "9223372036854775806",
		"9223372036854775808", "-9223372036854775808", "4294967296", "2147483648", "abc", "1.5", " 1", "0x10", "1e3", "+3",
		"١", "00002",
	}
	vfC07HostileTimes = []string{
		"0001-01-01T00:00:00Z", "9999-12-31T23:59:59.999999999Z", "2021-03-04", "garbage", "2021-03-04T05:06:07",
		"1614834367", "2021-03-04T05:06:07.1234567890123Z", "2021-03-04T05:06:07+02:00", "2021-03-04T05:06:07 02:00",
		"2021-13-40T25:61:61Z", "-0001-01-01T00:00:00Z", "2021-03-04t05:06:07z", "2262-04-11T23:47:16.854775807Z",
		"2262-04-11T23:47:16.854775808Z", "1677-09-21T00:12:43Z", "2021-03-04T05:06:07.5+23:59",
	}
	vfC07HostileTerms = []string{
		`"`, `""`, `"""`, `"a`, `a"`, "%", "\x00", "xn--", "xn--a", "\xff\xfe", "İ", "ß", "ſ", "K", "😀", ".", "*", "(?i)a",
		"a&b", `\`, `"QH":"`, `","IP":"`, " ", "\n", "\"\n\"", "a.test\",\"x\":\"", strings.Repeat("a", 5000),
		strings.Repeat("é", 300), "xn--" + strings.Repeat("a", 80), "..", "ads\x00", "\"ads\"\"",
	}
	vfC07HostileStatuses = []string{
		"ALL", "Blocked", `"blocked"`, `"all"`, "nonsense", "all,blocked", " all", "blocked_service", "\x00", "0",
	}
)

// TestVFC07Params: no value of limit, offset, older_than, search and
// response_status makes the request crash; the answer is 200 or 400; a 200
// answer holds only retained entries in their recorded form, newest first,
// without duplicates, older than a given older_than and not more than a given
// limit.
func TestVFC07Params(t *testing.T) {
	vfkit.Begin(t)
	rapid.Check(t, func(t *rapid.T) {
		fileEnabled := rapid.IntRange(0, 9).Draw(t, "file_enabled") != 0
		memSize := uint(rapid.IntRange(1, 6).Draw(t, "mem_size"))
		s := vfC07NewSys(t, vfC07DrawClients(t), memSize, fileEnabled, true, false)
		defer s.close()
		n := rapid.IntRange(0, 10).Draw(t, "n_entries")
		for i := 0; i < n; i++ {
			s.drawRecord(t)
			if fileEnabled && rapid.IntRange(0, 5).Draw(t, "rotate") == 0 {
				s.rotate(false)
			}
		}
		_, limitOpen := vfkit.KnownOpen("C07", vfC07SigLimit)

		all := s.all()
		nreq := rapid.IntRange(4, 12).Draw(t, "n_requests")
		for k := 0; k < nreq; k++ {
			q := url.Values{}
			hostile := []string{}
			intParam := func(name string) {
				switch rapid.IntRange(0, 3).Draw(t, name+"_kind") {
				case 0:
				case 1:
					q.Set(name, strconv.Itoa(rapid.IntRange(0, n+2).Draw(t, name+"_small")))
				default:
					v := rapid.SampledFrom(vfC07HostileInts).Draw(t, name+"_hostile")
					q.Set(name, v)
					hostile = append(hostile, name+"="+v)
				}
			}
			intParam("limit")
			intParam("offset")
			switch rapid.IntRange(0, 4).Draw(t, "older_kind") {
			case 0:
			case 1:
				if len(all) > 0 {
					r := all[rapid.IntRange(0, len(all)-1).Draw(t, "older_of")]
					q.Set("older_than", r.Time.Format(time.RFC3339Nano))
				}
			case 2:
				// an instant between, before or after the entries
				d := time.Duration(rapid.Int64Range(-int64(time.Hour), int64(s.now.Sub(vfC07Base))+int64(time.Hour)).Draw(t, "older_delta"))
				q.Set("older_than", vfC07Base.Add(d).In(rapid.SampledFrom(vfC07Zones).Draw(t, "older_zone")).Format(time.RFC3339Nano))
				hostile = append(hostile, "older_than=arbitrary_instant")
			default:
				v := rapid.SampledFrom(vfC07HostileTimes).Draw(t, "older_hostile")
				q.Set("older_than", v)
				hostile = append(hostile, "older_than="+v)
			}
			switch rapid.IntRange(0, 3).Draw(t, "search_kind") {
			case 0:
			case 1:
				q.Set("search", vfC07DrawTerm(t, "term", all, s.clients).Term)
			default:
				v := rapid.SampledFrom(vfC07HostileTerms).Draw(t, "search_hostile")
				q.Set("search", v)
				hostile = append(hostile, fmt.Sprintf("search=%.40q", v))
			}
			switch rapid.IntRange(0, 3).Draw(t, "status_kind") {
			case 0:
			case 1:
				q.Set("response_status", rapid.SampledFrom(vfC07Statuses).Draw(t, "status"))
			default:
				v := rapid.SampledFrom(vfC07HostileStatuses).Draw(t, "status_hostile")
				q.Set("response_status", v)
				hostile = append(hostile, "response_status="+v)
			}

			raw := q.Encode()
			switch rapid.IntRange(0, 11).Draw(t, "raw_kind") {
			case 0:
				raw += "&limit=-1&limit=1"
				hostile = append(hostile, "duplicate_limit")
			case 1:
				raw += "&search=%zz&offset=%"
				hostile = append(hostile, "bad_percent_encoding")
			case 2:
				raw = strings.ReplaceAll(raw, "%2B", "+")
				hostile = append(hostile, "unescaped_plus")
			case 3:
				raw += ";limit=2"
				hostile = append(hostile, "semicolon")
			}

			if limitOpen && vfC07NegativeBound(raw) {
				vfC07.Excluded(vfC07SigLimit)

				continue
			}

			resp := s.get(raw)
			vfC07.Class("params:requests")
			for _, h := range hostile {
				vfC07.Class("params:hostile_" + strings.SplitN(h, "=", 2)[0])
			}
			if len(hostile) > 0 {
				vfC07.Nontrivial("params|" + s.layout() + "|" + raw)
			}
			switch resp.Code {
			case http.StatusOK:
				vfC07.Class("params:status_200")
			case http.StatusBadRequest:
				vfC07.Class("params:status_400")

				continue
			default:
				s.fail("GET ?%s: status %d, want 200 or 400: %s", raw, resp.Code, resp.Body)
			}

			what := "GET ?" + raw
			idx := s.identify(what, resp.Data)
			uq, _ := url.ParseQuery(raw)
			if lim, err := strconv.ParseInt(uq.Get("limit"), 10, 64); err == nil && lim >= 0 && int64(len(idx)) > lim {
				s.fail("%s: %d items, more than the limit", what, len(idx))
			}
			if ot, err := time.Parse(time.RFC3339Nano, uq.Get("older_than")); err == nil && !ot.IsZero() {
				for _, i := range idx {
					if !all[i].Time.Before(ot) {
						s.fail("%s: returned %s, which is not older than older_than", what, all[i].describe())
					}
				}
			}
			// a documented filter must at least not return entries it does not select
			f := vfC07Filter{Term: uq.Get("search"), Status: uq.Get("response_status"), Kind: "params"}
			statusOK := f.Status == ""
			for _, st := range vfC07Statuses {
				statusOK = statusOK || st == f.Status
			}
			if statusOK && vfC07PlainTerm(f.Term) {
				for _, i := range idx {
					if f.sel(all[i], s.clients) == 0 {
						s.fail("%s: returned %s, which the filter does not select", what, all[i].describe())
					}
				}
			}
			if vfC07.WantSample("params_200") && len(hostile) > 1 {
				vfC07.Sample("params_200", map[string]any{"query": raw, "layout": s.layout(), "items": len(idx)})
			}
		}
		s.finish("params")
	})
}

// vfC07PlainTerm: terms for which the reference decides (ASCII or one of the
// generated IDN words, no control characters).
func vfC07PlainTerm(term string) (ok bool) {
	for _, r := range term {
		if r < 0x20 || r == 0x7f || r == 'İ' || r == 'ß' || r == 'ſ' || r == 'K' || r == 0xfffd {
			return false
		}
	}

	return len(term) < 200
}

// vfC07NegativeBound reports whether the request has a negative limit or
// offset or a sum of both that overflows (shape of a known finding).
func vfC07NegativeBound(raw string) (ok bool) {
	q, _ := url.ParseQuery(raw)
	lim, lerr := strconv.ParseInt(q.Get("limit"), 10, 64)
	off, oerr := strconv.ParseInt(q.Get("offset"), 10, 64)
	if lerr != nil {
		lim = 500
	}
	if oerr != nil {
		off = 0
	}

	return lim < 0 || off < 0 || lim+off < 0
}

// ---- stored line round trip ----

// TestVFC07StoredLine: the line written for an entry (encoding/json of the
// entry, as the flush writes it), read back by the hand-written decoder, gives
// every field back; the API form of the entry read back equals the API form of
// the entry in memory and the expected form.
func TestVFC07StoredLine(t *testing.T) {
	vfkit.Begin(t)
	vfC07Quiet()
	rapid.Check(t, func(t *rapid.T) {
		clients := vfC07DrawClients(t)
		l := &queryLog{logger: slogutil.NewDiscardLogger(), findClient: clients.find}
		ctx := context.Background()

		r := vfC07DrawRec(t, "e")
		r.Time = vfC07Base.Add(time.Duration(rapid.Int64Range(0, int64(400*24*time.Hour)).Draw(t, "t"))).
			In(rapid.SampledFrom(vfC07Zones).Draw(t, "zone"))
		if rapid.IntRange(0, 3).Draw(t, "round_second") == 0 {
			r.Time = r.Time.Truncate(time.Second)
		}

		p := r.params()
		if p.Result == nil {
			p.Result = &filtering.Result{}
		}
		mem := newLogEntry(ctx, l.logger, p)
		mem.Time = r.Time
		line, err := json.Marshal(mem)
		if err != nil {
			t.Fatalf("VERIF-INCONCLUSIVE marshal: %v", err)
		}
		err = vfC07CheckLine(line, r)
		if err != nil {
			t.Fatalf("the stored line does not hold what was recorded: %v\n%s", err, line)
		}

		got := &logEntry{}
		func() {
			defer func() {
				if rec := recover(); rec != nil {
					t.Fatalf("decoding a stored line panics: %v\nline: %s\n%s", rec, line, debug.Stack())
				}
			}()
			l.decodeLogEntry(ctx, got, string(line))
		}()

		err = vfC07CompareDecoded(got, r)
		if err != nil {
			t.Fatalf("a stored line is read back changed: %v\nline: %s", err, line)
		}

		// API level: same form from memory and from the line
		nop := func(net.IP) {}
		mem.client, _ = clients.find(vfC07IDs(r))
		got.client, _ = clients.find(vfC07IDs(r))
		a := vfC07Norm(l.entryToJSON(ctx, mem, nop)).(map[string]any)
		b := vfC07Norm(l.entryToJSON(ctx, got, nop)).(map[string]any)
		if !reflect.DeepEqual(a, b) {
			t.Fatalf("the API form changes when the entry goes through the file:\nmemory %s\nfile   %s\nline %s",
				vfC07JSON(a), vfC07JSON(b), line)
		}
		want, optional := vfC07Expect(r, clients, false)
		err = vfC07CompareEntry(b, vfC07Norm(want).(map[string]any), optional)
		if err != nil {
			t.Fatalf("API form of %s: %v\nitem %s", r.describe(), err, vfC07JSON(b))
		}

		vfC07.Eval()
		vfC07.Class("case:stored_line")
		vfC07.Class("stored_line:reason=" + vfC07ReasonNames[r.Result.Reason])
		if r.Result.DNSRewriteResult != nil {
			vfC07.Class("stored_line:dnsrewrite_payload")
		}
		if len(r.Result.Rules) > 1 {
			vfC07.Class("stored_line:several_rules")
		}
		if !r.Consistent {
			vfC07.Class("stored_line:unusual_reason_flag_pair")
		}
		if len(r.Result.Rules) > 0 || r.Result.DNSRewriteResult != nil || r.Result.CanonName != "" || len(r.Result.IPList) > 0 ||
			r.Result.ServiceName != "" {
			vfC07.Nontrivial("line|" + string(line))
		}
		if vfC07.WantSample("stored_line") && r.Result.DNSRewriteResult != nil && len(r.Result.Rules) > 1 {
			vfC07.Sample("stored_line", map[string]any{"line": string(line), "api": b})
		}
	})
}

func vfC07IDs(r *vfC07Rec) (ids []string) {
	if r.ClientID != "" {
		ids = append(ids, r.ClientID)
	}

	return append(ids, r.IP.String())
}

// vfC07CompareDecoded compares a decoded entry with the record field by field.
func vfC07CompareDecoded(e *logEntry, r *vfC07Rec) (err error) {
	packed := func(m *vfC07Msg) []byte {
		if m == nil {
			return nil
		}
		b, _ := m.msg.Pack()

		return b
	}
	ecs := ""
	if r.ECS != nil {
		ecs = r.ECS.String()
	}
	switch {
	case !e.Time.Equal(r.Time):
		return fmt.Errorf("Time %s, recorded %s", e.Time.Format(time.RFC3339Nano), r.Time.Format(time.RFC3339Nano))
	case e.QHost != r.host():
		return fmt.Errorf("QHost %q, recorded %q", e.QHost, r.host())
	case e.QType != vfC07TypeName(r.QType) || e.QClass != vfC07ClassName(r.QClass):
		return fmt.Errorf("question %s %s, recorded %s %s", e.QClass, e.QType, vfC07ClassName(r.QClass), vfC07TypeName(r.QType))
	case e.ReqECS != ecs:
		return fmt.Errorf("ECS %q, recorded %q", e.ReqECS, ecs)
	case e.ClientID != r.ClientID:
		return fmt.Errorf("ClientID %q, recorded %q", e.ClientID, r.ClientID)
	case e.ClientProto != r.Proto:
		return fmt.Errorf("ClientProto %q, recorded %q", e.ClientProto, r.Proto)
	case e.Upstream != r.Upstream:
		return fmt.Errorf("Upstream %q, recorded %q", e.Upstream, r.Upstream)
	case !e.IP.Equal(r.IP):
		return fmt.Errorf("IP %s, recorded %s", e.IP, r.IP)
	case e.Elapsed != r.Elapsed:
		return fmt.Errorf("Elapsed %d, recorded %d", e.Elapsed, r.Elapsed)
	case e.Cached != r.Cached || e.AuthenticatedData != r.AD:
		return fmt.Errorf("Cached/AD %t/%t, recorded %t/%t", e.Cached, e.AuthenticatedData, r.Cached, r.AD)
	case string(e.Answer) != string(packed(r.Answer)):
		return fmt.Errorf("Answer bytes differ")
	case string(e.OrigAnswer) != string(packed(r.Orig)):
		return fmt.Errorf("OrigAnswer bytes differ")
	}

	g, w := e.Result, r.Result
	switch {
	case g.Reason != w.Reason || g.IsFiltered != w.IsFiltered:
		return fmt.Errorf("Reason/IsFiltered %d/%t, recorded %d/%t", g.Reason, g.IsFiltered, w.Reason, w.IsFiltered)
	case g.ServiceName != w.ServiceName || g.CanonName != w.CanonName:
		return fmt.Errorf("ServiceName/CanonName %q/%q, recorded %q/%q", g.ServiceName, g.CanonName, w.ServiceName, w.CanonName)
	case len(g.IPList) != len(w.IPList):
		return fmt.Errorf("IPList %v, recorded %v", g.IPList, w.IPList)
	case len(g.Rules) != len(w.Rules):
		return fmt.Errorf("%d rules, recorded %d", len(g.Rules), len(w.Rules))
	}
	for i := range w.IPList {
		if g.IPList[i] != w.IPList[i] {
			return fmt.Errorf("IPList %v, recorded %v", g.IPList, w.IPList)
		}
	}
	for i := range w.Rules {
		if *g.Rules[i] != *w.Rules[i] {
			return fmt.Errorf("rule %d is %+v, recorded %+v", i, *g.Rules[i], *w.Rules[i])
		}
	}

	// the $dnsrewrite payload: compare in the generic JSON form (addresses are
	// strings there whatever Go type holds them)
	var gd, wd any
	if g.DNSRewriteResult != nil {
		gd = vfC07Norm(g.DNSRewriteResult)
	}
	if w.DNSRewriteResult != nil {
		wd = vfC07Norm(w.DNSRewriteResult)
	}
	empty := func(v any) bool {
		m, ok := v.(map[string]any)

		return v == nil || (ok && len(m) == 0)
	}
	if !(empty(gd) && empty(wd)) && !reflect.DeepEqual(gd, wd) {
		return fmt.Errorf("DNSRewriteResult %s, recorded %s", vfC07JSON(gd), vfC07JSON(wd))
	}
	if g.DNSRewriteResult != nil {
		for _, tp := range []uint16{dns.TypeA, dns.TypeAAAA} {
			for _, v := range g.DNSRewriteResult.Response[tp] {
				switch v.(type) {
				case net.IP:
				default:
					if fmt.Sprintf("%T", v) != "netip.Addr" {
						return fmt.Errorf("DNSRewriteResult address value has type %T", v)
					}
				}
			}
		}
	}

	return nil
}

// ---- frozen regressions (plain tests) ----

// vfC07FixedRec builds a plain record without draws.
func vfC07FixedRec(host, ip string) (r *vfC07Rec) {
	r = &vfC07Rec{
		QName: host + ".", QType: dns.TypeA, QClass: dns.ClassINET, IP: net.ParseIP(ip), Consistent: true,
		Upstream: "8.8.8.8:53", Elapsed: 1234567,
	}

	return r
}

// vfC07Known turns the failure of a regression into the KNOWN-FINDING line when
// the finding is listed as open.
func vfC07Known(t *testing.T, sig string, run func(tb vfC07TB)) {
	what, open := vfkit.KnownOpen("C07", sig)
	if !open {
		run(t)

		return
	}
	rec := &vfC07Recorder{}
	func() {
		defer func() {
			if r := recover(); r != nil && r != rec {
				panic(r)
			}
		}()
		run(rec)
	}()
	if rec.failed {
		vfC07.KnownLine(what)
	}
}

type vfC07Recorder struct {
	failed bool
	msg    string
}

func (r *vfC07Recorder) Fatalf(format string, args ...any) {
	r.failed = true
	r.msg = fmt.Sprintf(format, args...)
	panic(r)
}

func (r *vfC07Recorder) Logf(string, ...any) {}

// TestVFC07RegressCursor: 4 entries in the file, 3 in memory, pages of 2 by the
// returned cursor: the page after the one that ends with the oldest memory
// entry must start with the newest file entry.
func TestVFC07RegressCursor(t *testing.T) {
	vfkit.Begin(t)
	vfC07Known(t, vfC07SigCursor, func(tb vfC07TB) {
		for _, c := range []struct{ file, mem, size int }{{4, 3, 3}, {4, 3, 2}, {1, 1, 1}, {2, 4, 2}} {
			s := vfC07NewSys(tb, vfC07Clients{}, 10, true, true, false)
			s.regress = true
			for i := 0; i < c.file; i++ {
				s.record(vfC07FixedRec(fmt.Sprintf("f%d.test", i), "192.0.2.1"), time.Second)
			}
			s.flush()
			for i := 0; i < c.mem; i++ {
				s.record(vfC07FixedRec(fmt.Sprintf("m%d.test", i), "192.0.2.1"), time.Second)
			}
			full := s.readAll(vfC07Filter{}, true)
			func() {
				defer s.close()
				s.pageByCursor(vfC07Filter{}, c.size, full)
			}()
		}
		// the same with the file rotated away from under the memory entries
		s := vfC07NewSys(tb, vfC07Clients{}, 10, true, true, false)
		s.regress = true
		defer s.close()
		for i := 0; i < 3; i++ {
			s.record(vfC07FixedRec(fmt.Sprintf("r%d.test", i), "192.0.2.1"), time.Second)
		}
		s.flush()
		s.rotate(false)
		for i := 0; i < 2; i++ {
			s.record(vfC07FixedRec(fmt.Sprintf("m%d.test", i), "192.0.2.1"), time.Second)
		}
		s.pageByCursor(vfC07Filter{}, 2, s.readAll(vfC07Filter{}, true))
	})
	vfC07.Eval()
}

// TestVFC07RegressBounds: negative and overflowing limit / offset values must
// not crash the request.
func TestVFC07RegressBounds(t *testing.T) {
	vfkit.Begin(t)
	vfC07Known(t, vfC07SigLimit, func(tb vfC07TB) {
		s := vfC07NewSys(tb, vfC07Clients{}, 10, true, true, false)
		defer s.close()
		for i := 0; i < 3; i++ {
			s.record(vfC07FixedRec(fmt.Sprintf("f%d.test", i), "192.0.2.1"), time.Second)
		}
		s.flush()
		s.record(vfC07FixedRec("m.test", "192.0.2.1"), time.Second)
		for _, raw := range []string{
			"limit=-1", "limit=1&offset=9223372036854775807", "limit=2&offset=-7", "limit=-9223372036854775808",
			"limit=9223372036854775807&offset=9223372036854775807", "offset=-1", "limit=0&offset=-1",
			"limit=9223372036854775807", "offset=9223372036854775807",
		} {
			resp := s.get(raw)
			if resp.Code != http.StatusOK && resp.Code != http.StatusBadRequest {
				s.fail("GET ?%s: status %d", raw, resp.Code)
			}
			if resp.Code == http.StatusOK {
				s.identify("GET ?"+raw, resp.Data)
			}
		}
	})
	vfC07.Eval()
}

// TestVFC07RegressEscaped: a name with a byte that JSON escapes ("a&b.test",
// asked for by a browser that resolves what was typed into the address bar) must
// be found by a term that spans that byte, in memory and in the file alike.
func TestVFC07RegressEscaped(t *testing.T) {
	vfkit.Begin(t)
	vfC07Known(t, vfC07SigEscaped, func(tb vfC07TB) {
		s := vfC07NewSys(tb, vfC07Clients{}, 10, true, true, false)
		defer s.close()
		s.record(vfC07FixedRec("a&b.test", "192.0.2.1"), time.Second)
		s.record(vfC07FixedRec("x<y.example", "192.0.2.1"), time.Second)
		s.record(vfC07FixedRec("plain.example", "192.0.2.1"), time.Second)
		for _, f := range []vfC07Filter{
			{Kind: "host_substring", Term: "a&b"}, {Kind: "host_substring", Term: "<Y"},
			{Kind: "host_exact", Term: `"a&b.test"`}, {Kind: "host_substring", Term: "example"},
		} {
			s.readAll(f, true)
		}
		s.flush()
		for _, f := range []vfC07Filter{
			{Kind: "host_substring", Term: "a&b"}, {Kind: "host_substring", Term: "<Y"},
			{Kind: "host_exact", Term: `"a&b.test"`}, {Kind: "host_substring", Term: "example"},
		} {
			s.readAll(f, true)
		}
	})
	vfC07.Eval()
}
