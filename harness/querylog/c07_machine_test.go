//go:build verif

package querylog

// C07 — the system under test behind its public surface (Add, Shutdown, the
// HTTP handlers registered through HTTPRegister) plus the model that says
// which recorded entries are retained, and the checks of reads against it.

import (
	"bufio"
	"bytes"
	"context"
	"encoding/json"
	"fmt"
	"io"
	"net/http"
	"net/http/httptest"
	"net/url"
	"os"
	"path/filepath"
	"reflect"
	"runtime"
	"runtime/debug"
	"sort"
	"strconv"
	"strings"
	"sync"
	"time"

	"github.com/AdguardTeam/AdGuardHome/internal/aghnet"
	"github.com/AdguardTeam/AdGuardHome/internal/vfkit"
	"github.com/AdguardTeam/golibs/log"
	"github.com/AdguardTeam/golibs/logutil/slogutil"
	"github.com/AdguardTeam/golibs/timeutil"
)

var vfC07Quiet = sync.OnceFunc(func() { log.SetOutput(io.Discard) })

// vfC07Sys is one query log on its own directory together with the model.
type vfC07Sys struct {
	tb      vfC07TB
	dir     string
	l       *queryLog
	routes  map[string]http.HandlerFunc
	clients vfC07Clients

	// settings (model)
	enabled     bool
	fileEnabled bool
	anonymise   bool
	memSize     uint

	// retained entries, oldest first, by location
	rot, cur, mem        []*vfC07Rec
	rotExists, curExists bool

	now  time.Time
	seq  int
	zone *time.Location

	// regress is set by the frozen regression cases: no shape is excluded
	regress bool

	history      []string
	asyncFlushes int
	// noAwait makes record return without waiting for a flush it started.
	noAwait  bool
	requests int

	// what the history has gone through (for classes / non-trivial)
	didRotate, didRotateDrop, didRestart, didClear, didDisable bool
	crossings                                                  map[string]bool
}

func vfC07NewSys(tb vfC07TB, clients vfC07Clients, memSize uint, fileEnabled, enabled, anonymise bool) (s *vfC07Sys) {
	vfC07Quiet()
	dir, err := os.MkdirTemp("", "vfc07-")
	if err != nil {
		tb.Fatalf("VERIF-INCONCLUSIVE temp dir: %v", err)
	}
	s = &vfC07Sys{
		tb: tb, dir: dir, clients: clients, enabled: enabled, fileEnabled: fileEnabled, anonymise: anonymise,
		memSize: memSize, now: vfC07Base, zone: time.UTC, crossings: map[string]bool{},
	}
	s.open(Config{
		RotationIvl:       timeutil.Day,
		MemSize:           memSize,
		Enabled:           enabled,
		FileEnabled:       fileEnabled,
		AnonymizeClientIP: anonymise,
	})

	return s
}

// open creates the query log object from a configuration, the way the
// application does at start-up, without the hourly rotation goroutine.
func (s *vfC07Sys) open(c Config) {
	ignored, err := aghnet.NewIgnoreEngine(nil)
	if err != nil {
		s.tb.Fatalf("VERIF-INCONCLUSIVE ignore engine: %v", err)
	}
	var anon aghnet.IPMutFunc
	if c.AnonymizeClientIP {
		anon = AnonymizeIP
	}
	s.routes = map[string]http.HandlerFunc{}
	c.Logger = slogutil.NewDiscardLogger()
	c.Ignored = ignored
	c.Anonymizer = aghnet.NewIPMut(anon)
	c.ConfigModified = func() {}
	c.HTTPRegister = func(method, path string, h http.HandlerFunc) { s.routes[method+" "+path] = h }
	c.FindClient = s.clients.find
	c.BaseDir = s.dir

	l, err := newQueryLog(c)
	if err != nil {
		s.tb.Fatalf("VERIF-INCONCLUSIVE newQueryLog: %v", err)
	}
	l.initWeb()
	s.l = l
}

func (s *vfC07Sys) close() {
	_ = os.RemoveAll(s.dir)
}

func (s *vfC07Sys) all() (recs []*vfC07Rec) {
	recs = make([]*vfC07Rec, 0, len(s.rot)+len(s.cur)+len(s.mem))
	recs = append(recs, s.rot...)
	recs = append(recs, s.cur...)
	recs = append(recs, s.mem...)

	return recs
}

// where tells the location of the i-th oldest retained entry.
func (s *vfC07Sys) where(i int) (loc string) {
	switch {
	case i < len(s.rot):
		return "rotated"
	case i < len(s.rot)+len(s.cur):
		return "file"
	default:
		return "memory"
	}
}

func (s *vfC07Sys) layout() (l string) {
	return fmt.Sprintf("r%d/f%d/m%d", len(s.rot), len(s.cur), len(s.mem))
}

func (s *vfC07Sys) locations() (n int) {
	for _, l := range [][]*vfC07Rec{s.rot, s.cur, s.mem} {
		if len(l) > 0 {
			n++
		}
	}

	return n
}

func (s *vfC07Sys) logf(format string, args ...any) {
	s.history = append(s.history, fmt.Sprintf(format, args...))
}

// ---- operations ----

// tick advances the model clock.
func (s *vfC07Sys) tick(gap time.Duration) (ts time.Time) {
	s.now = s.now.Add(gap)

	return s.now.In(s.zone)
}

// newest returns the entry pushed last into the memory buffer.
func (s *vfC07Sys) newest() (e *logEntry) {
	s.l.bufferLock.Lock()
	defer s.l.bufferLock.Unlock()

	s.l.buffer.ReverseRange(func(v *logEntry) (cont bool) {
		e = v

		return false
	})

	return e
}

// record adds an entry through Add.  The entry gets the model's instant instead
// of the wall clock's before anything can read or flush it (the flush lock is
// held around Add), and a flush that Add started is awaited, so that nothing is
// recorded while a flush is pending.
func (s *vfC07Sys) record(r *vfC07Rec, gap time.Duration) {
	r.Seq = s.seq
	s.seq++
	r.Time = s.tick(gap)
	s.logf("record %s", r.describe())

	s.l.fileFlushLock.Lock()
	before := s.newest()
	s.l.Add(r.params())
	after := s.newest()
	if after != nil && after != before {
		s.l.bufferLock.Lock()
		after.Time = r.Time
		s.l.bufferLock.Unlock()
	}
	s.l.fileFlushLock.Unlock()
	if !s.noAwait {
		s.awaitFlush()
	}

	if !s.enabled {
		return
	}
	s.mem = append(s.mem, r)
	switch {
	case s.fileEnabled && uint(len(s.mem)) >= s.memSize:
		s.modelFlush()
	case !s.fileEnabled && uint(len(s.mem)) > s.memSize:
		s.mem = s.mem[1:]
	}
}

// awaitFlush waits for a flush started by Add to finish.
func (s *vfC07Sys) awaitFlush() {
	start := time.Now()
	waited := false
	for {
		s.l.bufferLock.Lock()
		pending := s.l.flushPending
		s.l.bufferLock.Unlock()
		if !pending {
			break
		}
		waited = true
		if time.Since(start) > 60*time.Second {
			// nothing else is running: this is not slowness
			s.tb.Fatalf("a flush of the memory buffer has been pending for 60 s with nothing else going on: no later flush can start and "+
				"further queries will overwrite each other in the memory buffer\nhistory: %s", strings.Join(s.history, "; "))
		}
		runtime.Gosched()
		time.Sleep(20 * time.Microsecond)
	}
	// the pending flag is cleared inside the flush lock, before the write
	s.l.fileFlushLock.Lock()
	s.l.fileFlushLock.Unlock() //nolint:staticcheck
	if waited {
		s.asyncFlushes++
	}
}

func (s *vfC07Sys) modelFlush() {
	if len(s.mem) == 0 {
		return
	}
	s.cur = append(s.cur, s.mem...)
	s.mem = nil
	s.curExists = true
}

// flush writes the memory buffer out the way a shutdown does.
func (s *vfC07Sys) flush() {
	s.logf("flush")
	err := s.l.Shutdown(context.Background())
	if err != nil && len(s.mem) > 0 && s.fileEnabled {
		s.tb.Fatalf("flushing %d entries: %v", len(s.mem), err)
	}
	if s.fileEnabled {
		s.modelFlush()
	}
}

// rotate renames the current file to the rotated one.
func (s *vfC07Sys) rotate(viaCheck bool) {
	s.logf("rotate via_check=%t", viaCheck)
	if viaCheck {
		// every entry is years old: rotation is always due
		s.l.checkAndRotate(context.Background())
	} else {
		err := s.l.rotate(context.Background())
		if err != nil {
			s.tb.Fatalf("rotate: %v", err)
		}
	}
	if !s.curExists {
		return
	}
	s.didRotate = true
	if len(s.rot) > 0 {
		s.didRotateDrop = true
	}
	s.rot, s.rotExists = s.cur, true
	s.cur, s.curExists = nil, false
}

func (s *vfC07Sys) post(route string, body any) (code int, text string) {
	h := s.routes[route]
	if h == nil {
		s.tb.Fatalf("VERIF-INCONCLUSIVE route %q is not registered (have %v)", route, reflect.ValueOf(s.routes).MapKeys())
	}
	b, err := json.Marshal(body)
	if err != nil {
		s.tb.Fatalf("VERIF-INCONCLUSIVE %v", err)
	}
	parts := strings.SplitN(route, " ", 2)
	req := httptest.NewRequest(parts[0], parts[1], bytes.NewReader(b))
	req.Header.Set("Content-Type", "application/json")
	w := httptest.NewRecorder()
	func() {
		defer func() {
			if r := recover(); r != nil {
				s.tb.Fatalf("panic in %s: %v\n%s", route, r, debug.Stack())
			}
		}()
		h(w, req)
	}()

	return w.Code, w.Body.String()
}

func (s *vfC07Sys) clear() {
	s.logf("clear")
	code, text := s.post("POST /control/querylog_clear", nil)
	if code != http.StatusOK {
		s.tb.Fatalf("clear: status %d %s", code, text)
	}
	s.rot, s.cur, s.mem = nil, nil, nil
	s.rotExists, s.curExists = false, false
	s.didClear = true
}

// configure changes the settings through the HTTP API.
func (s *vfC07Sys) configure(enabled, anonymise, legacy bool) {
	s.logf("configure enabled=%t anonymise=%t legacy_api=%t", enabled, anonymise, legacy)
	var code int
	var text string
	if legacy {
		code, text = s.post("POST /control/querylog_config", map[string]any{
			"enabled": enabled, "anonymize_client_ip": anonymise, "interval": 1,
		})
	} else {
		code, text = s.post("PUT /control/querylog/config/update", map[string]any{
			"enabled": enabled, "anonymize_client_ip": anonymise, "interval": 86400000, "ignored": []string{},
		})
	}
	if code != http.StatusOK {
		s.tb.Fatalf("configure: status %d %s", code, text)
	}
	s.enabled, s.anonymise = enabled, anonymise
	if !enabled {
		s.didDisable = true
	}
}

// restart shuts the query log down and opens a new one on the same directory
// with the persisted settings and, possibly, another memory size.
func (s *vfC07Sys) restart(memSize uint) {
	s.logf("restart mem_size=%d", memSize)
	err := s.l.Shutdown(context.Background())
	if err != nil && len(s.mem) > 0 && s.fileEnabled {
		s.tb.Fatalf("shutdown with %d entries in memory: %v", len(s.mem), err)
	}
	if s.fileEnabled {
		s.modelFlush()
	} else {
		s.mem = nil
	}
	c := Config{}
	s.l.WriteDiskConfig(&c)
	if c.Enabled != s.enabled || c.AnonymizeClientIP != s.anonymise || c.FileEnabled != s.fileEnabled {
		s.tb.Fatalf("persisted settings enabled=%t anonymise=%t file=%t differ from the configured %t %t %t",
			c.Enabled, c.AnonymizeClientIP, c.FileEnabled, s.enabled, s.anonymise, s.fileEnabled)
	}
	c.MemSize = memSize
	s.memSize = memSize
	s.open(c)
	s.didRestart = true
}

// ---- reads ----

// vfC07Resp is a decoded API response.
type vfC07Resp struct {
	Code   int
	Data   []map[string]any
	Oldest string
	Body   string
}

// get calls GET /control/querylog.  A panic of the handler is a violation.
func (s *vfC07Sys) get(rawQuery string) (resp vfC07Resp) {
	h := s.routes["GET /control/querylog"]
	if h == nil {
		s.tb.Fatalf("VERIF-INCONCLUSIVE GET /control/querylog is not registered")
	}
	req := httptest.NewRequest(http.MethodGet, "/control/querylog", nil)
	req.URL.RawQuery = rawQuery
	w := httptest.NewRecorder()
	func() {
		defer func() {
			if r := recover(); r != nil {
				s.tb.Fatalf("GET /control/querylog?%s crashed: panic: %v\nhistory: %s\n%s",
					rawQuery, r, strings.Join(s.history, "; "), debug.Stack())
			}
		}()
		h(w, req)
	}()
	s.requests++
	resp.Code = w.Code
	resp.Body = w.Body.String()
	if resp.Code != http.StatusOK {
		return resp
	}

	var doc struct {
		Data   *[]map[string]any `json:"data"`
		Oldest *string           `json:"oldest"`
	}
	err := json.Unmarshal(w.Body.Bytes(), &doc)
	if err != nil || doc.Data == nil || doc.Oldest == nil {
		s.tb.Fatalf("GET /control/querylog?%s: 200 with a body that is not a query log document (%v): %.300s",
			rawQuery, err, resp.Body)
	}
	resp.Data, resp.Oldest = *doc.Data, *doc.Oldest

	return resp
}

func (s *vfC07Sys) fail(format string, args ...any) {
	s.tb.Fatalf("%s\nlayout %s (rotated/file/memory), mem_size=%d file_enabled=%t enabled=%t anonymise=%t\nhistory:\n  %s",
		fmt.Sprintf(format, args...), s.layout(), s.memSize, s.fileEnabled, s.enabled, s.anonymise,
		strings.Join(s.history, "\n  "))
}

// identify maps API items to retained entries by their time, checks every item
// against the expected form (and against the form first seen: the API form of
// an entry must not depend on where it is stored), and demands strictly
// newest-first order without duplicates.
func (s *vfC07Sys) identify(what string, data []map[string]any) (idx []int) {
	all := s.all()
	byTime := make(map[int64]int, len(all))
	for i, r := range all {
		byTime[r.Time.UnixNano()] = i
	}
	seen := map[int]bool{}
	anonIdx := 0
	if s.anonymise {
		anonIdx = 1
	}
	prev := int64(0)
	for n, item := range data {
		ts, _ := item["time"].(string)
		tm, err := time.Parse(time.RFC3339Nano, ts)
		if err != nil {
			s.fail("%s: item %d has time %q: %v", what, n, ts, err)
		}
		i, ok := byTime[tm.UnixNano()]
		if !ok {
			s.fail("%s: item %d (time %s, %v) is not a retained recorded entry", what, n, ts, vfC07JSON(item["question"]))
		}
		if seen[i] {
			s.fail("%s: entry %s is returned twice", what, all[i].describe())
		}
		seen[i] = true
		if n > 0 && tm.UnixNano() >= prev {
			s.fail("%s: not newest first: item %d (%s) follows an item that is not newer", what, n, ts)
		}
		prev = tm.UnixNano()

		r := all[i]
		if r.want[anonIdx] == nil {
			want, optional := vfC07Expect(r, s.clients, s.anonymise)
			r.want[anonIdx], r.optional[anonIdx] = vfC07Norm(want).(map[string]any), optional
		}
		optional := r.optional[anonIdx]
		err = vfC07CompareEntry(item, r.want[anonIdx], optional)
		if err != nil {
			s.fail("%s: entry %s in %s is returned changed: %v\nitem: %s", what, r.describe(), s.where(i), err, vfC07JSON(item))
		}
		if first := r.firstSeen[anonIdx]; first == nil {
			r.firstSeen[anonIdx] = item
			r.seenWhere[anonIdx] = s.where(i)
		} else {
			a, b := vfC07StripOptional(first, optional), vfC07StripOptional(item, optional)
			if !reflect.DeepEqual(a, b) {
				s.fail("%s: entry %s looked different when it was in %s than now in %s:\nthen %s\nnow  %s",
					what, r.describe(), r.seenWhere[anonIdx], s.where(i), vfC07JSON(first), vfC07JSON(item))
			}
			if r.seenWhere[anonIdx] != s.where(i) {
				vfC07.Class("metamorphic:same_form_" + r.seenWhere[anonIdx] + "->" + s.where(i))
			}
		}
		idx = append(idx, i)
	}

	return idx
}

func vfC07StripOptional(m map[string]any, optional map[string]bool) (out map[string]any) {
	out = make(map[string]any, len(m))
	for k, v := range m {
		if !optional[k] {
			out[k] = v
		}
	}

	return out
}

// expected returns the indexes (into all()) a filter selects, newest first,
// and those whose selection is open.
func (s *vfC07Sys) expected(f vfC07Filter) (want []int, open map[int]bool) {
	all := s.all()
	open = map[int]bool{}
	for i := len(all) - 1; i >= 0; i-- {
		switch f.sel(all[i], s.clients) {
		case 1:
			want = append(want, i)
		case -1:
			open[i] = true
		}
	}

	return want, open
}

func vfC07SameIdx(a, b []int) (ok bool) {
	if len(a) != len(b) {
		return false
	}
	for i := range a {
		if a[i] != b[i] {
			return false
		}
	}

	return true
}

func vfC07Without(idx []int, open map[int]bool) (out []int) {
	out = make([]int, 0, len(idx))
	for _, i := range idx {
		if !open[i] {
			out = append(out, i)
		}
	}

	return out
}

func (f vfC07Filter) values() (q url.Values) {
	q = url.Values{}
	if f.Term != "" {
		q.Set("search", f.Term)
	}
	if f.Status != "" {
		q.Set("response_status", f.Status)
	}

	return q
}

// readAll makes one request large enough for everything and compares it with
// the model in both directions.
func (s *vfC07Sys) readAll(f vfC07Filter, withLimit bool) (got []int) {
	q := f.values()
	if withLimit {
		q.Set("limit", strconv.Itoa(len(s.all())+7))
	}
	what := fmt.Sprintf("GET ?%s", q.Encode())
	resp := s.get(q.Encode())
	if resp.Code != http.StatusOK {
		s.fail("%s: status %d: %s", what, resp.Code, resp.Body)
	}
	got = s.identify(what, resp.Data)
	want, open := s.expected(f)
	g := vfC07Without(got, open)
	if !vfC07SameIdx(g, want) {
		s.fail("%s with filter %s: %s", what, f, s.diff(g, want))
	}

	return got
}

func (s *vfC07Sys) diff(got, want []int) (d string) {
	all := s.all()
	in := func(l []int, v int) bool {
		for _, x := range l {
			if x == v {
				return true
			}
		}

		return false
	}
	sb := &strings.Builder{}
	fmt.Fprintf(sb, "returned %d entries, the model selects %d", len(got), len(want))
	for _, w := range want {
		if !in(got, w) {
			fmt.Fprintf(sb, "\n  MISSING (in %s): %s", s.where(w), all[w].describe())
		}
	}
	for _, g := range got {
		if !in(want, g) {
			fmt.Fprintf(sb, "\n  NOT SELECTED BY THE FILTER (in %s): %s", s.where(g), all[g].describe())
		}
	}
	if sb.Len() < 80 {
		fmt.Fprintf(sb, "\n  same entries, other order: got %v want %v", got, want)
	}

	return sb.String()
}

// noteCrossing does the accounting for a paged read: which storage boundaries
// the paged sequence crosses and where page borders fall.
func (s *vfC07Sys) noteCrossing(kind string, f vfC07Filter, size int, seq []int) {
	locs := map[string]bool{}
	straddle, atBoundary := false, false
	for n, i := range seq {
		locs[s.where(i)] = true
		if n > 0 && s.where(seq[n-1]) != s.where(i) {
			if n%size == 0 {
				atBoundary = true
				vfC07.Class("paged_" + kind + ":page_border_on_" + s.where(seq[n-1]) + "/" + s.where(i) + "_boundary")
			} else {
				straddle = true
			}
		}
	}
	pages := (len(seq) + size - 1) / size
	if len(locs) < 2 || pages < 2 {
		vfC07.Class("paged_" + kind + ":within_one_location_or_one_page")

		return
	}
	if straddle {
		vfC07.Class("paged_" + kind + ":page_straddles_boundary")
	}
	if !straddle && !atBoundary {
		return
	}
	filter := "none"
	if f.Kind != "" {
		filter = f.Kind
	}
	key := fmt.Sprintf("%s|%s|size=%d|filter=%s", s.layout(), kind, size, filter)
	s.crossings[key] = true
	vfC07.Nontrivial(key)
	vfC07.Class("nontrivial:paged_read_across_storage_boundary")
	if len(locs) == 3 {
		vfC07.Class("nontrivial:paged_read_across_memory_file_and_rotated_file")
	}
	if f.Kind != "" {
		vfC07.Class("nontrivial:filtered_paged_read_across_boundary")
	}
}

// pageByCursor follows the older_than cursor the API returns until it says
// there is nothing older, and demands that the pages, concatenated, are the
// sequence the single large request returns.
func (s *vfC07Sys) pageByCursor(f vfC07Filter, size int, full []int) {
	if _, known := vfkit.KnownOpen("C07", vfC07SigCursor); known && !s.regress && len(s.mem) > 0 && len(s.cur)+len(s.rot) > 0 {
		vfC07.Excluded(vfC07SigCursor)

		return
	}
	var seq []int
	older := ""
	pages := 0
	for {
		q := f.values()
		q.Set("limit", strconv.Itoa(size))
		if older != "" {
			q.Set("older_than", older)
		}
		what := fmt.Sprintf("page %d of GET ?%s", pages+1, q.Encode())
		resp := s.get(q.Encode())
		if resp.Code != http.StatusOK {
			s.fail("%s: status %d: %s", what, resp.Code, resp.Body)
		}
		if len(resp.Data) > size {
			s.fail("%s: %d items, more than the limit", what, len(resp.Data))
		}
		seq = append(seq, s.identify(what, resp.Data)...)
		pages++
		if resp.Oldest == "" {
			break
		}
		older = resp.Oldest
		if pages > len(s.all())+3 {
			s.fail("cursor paging with limit=%d filter %s does not end after %d pages", size, f, pages)
		}
	}
	if !vfC07SameIdx(seq, full) {
		s.fail("paging by the returned older_than cursor, limit=%d, filter %s: the %d pages do not add up to the sequence of one large request: %s",
			size, f, pages, s.diff(seq, full))
	}
	vfC07.Class("read:cursor_paged")
	vfC07.ClassN("read:cursor_pages", pages)
	s.noteCrossing("cursor", f, size, full)
}

// pageByOffset reads with offset=k*size, limit=size until a page is empty.
func (s *vfC07Sys) pageByOffset(f vfC07Filter, size int, full []int) {
	var seq []int
	pages := 0
	for {
		q := f.values()
		q.Set("limit", strconv.Itoa(size))
		q.Set("offset", strconv.Itoa(pages*size))
		what := fmt.Sprintf("GET ?%s", q.Encode())
		resp := s.get(q.Encode())
		if resp.Code != http.StatusOK {
			s.fail("%s: status %d: %s", what, resp.Code, resp.Body)
		}
		if len(resp.Data) > size {
			s.fail("%s: %d items, more than the limit", what, len(resp.Data))
		}
		got := s.identify(what, resp.Data)
		lo, hi := pages*size, (pages+1)*size
		if lo > len(full) {
			lo = len(full)
		}
		if hi > len(full) {
			hi = len(full)
		}
		if !vfC07SameIdx(got, full[lo:hi]) {
			s.fail("%s, filter %s: the page is not positions %d..%d of the sequence of one large request: %s",
				what, f, lo, hi, s.diff(got, full[lo:hi]))
		}
		seq = append(seq, got...)
		pages++
		if len(resp.Data) == 0 {
			break
		}
		if pages > len(s.all())+3 {
			s.fail("offset paging with limit=%d filter %s does not end after %d pages", size, f, pages)
		}
	}
	vfC07.Class("read:offset_paged")
	vfC07.ClassN("read:offset_pages", pages)
	s.noteCrossing("offset", f, size, full)
}

// checkFiles compares the log files with the entries the model places in them
// (append-only JSON lines, oldest first).
func (s *vfC07Sys) checkFiles() {
	for _, f := range []struct {
		name   string
		exists bool
		recs   []*vfC07Rec
	}{
		{queryLogFileName + ".1", s.rotExists, s.rot},
		{queryLogFileName, s.curExists, s.cur},
	} {
		path := filepath.Join(s.dir, f.name)
		fh, err := os.Open(path)
		if err != nil {
			if os.IsNotExist(err) && !f.exists {
				continue
			}
			s.fail("%s: %v (the model has %d entries there)", f.name, err, len(f.recs))
		}
		if !f.exists {
			_ = fh.Close()
			s.fail("%s exists though nothing retained was written to it", f.name)
		}
		sc := bufio.NewScanner(fh)
		sc.Buffer(make([]byte, 0, 64*1024), 1<<20)
		n := 0
		for sc.Scan() {
			if n >= len(f.recs) {
				_ = fh.Close()
				s.fail("%s has more than the %d lines the model expects; extra: %.200s", f.name, len(f.recs), sc.Text())
			}
			err = vfC07CheckLine(sc.Bytes(), f.recs[n])
			if err != nil {
				_ = fh.Close()
				s.fail("%s line %d does not hold %s: %v\nline: %s", f.name, n+1, f.recs[n].describe(), err, sc.Text())
			}
			n++
		}
		_ = fh.Close()
		if n != len(f.recs) {
			s.fail("%s has %d lines, the model expects %d", f.name, n, len(f.recs))
		}
	}
}

// vfC07CheckLine decodes a stored line with encoding/json and compares it with
// what was recorded, including the parts of the filtering result the API does
// not show.
func vfC07CheckLine(line []byte, r *vfC07Rec) (err error) {
	var m map[string]any
	err = json.Unmarshal(line, &m)
	if err != nil {
		return fmt.Errorf("not JSON: %w", err)
	}
	ts, _ := m["T"].(string)
	tm, perr := time.Parse(time.RFC3339Nano, ts)
	if perr != nil || !tm.Equal(r.Time) {
		return fmt.Errorf("T = %q, recorded %s", ts, r.Time.Format(time.RFC3339Nano))
	}
	if m["QH"] != r.host() {
		return fmt.Errorf("QH = %v, recorded %q", m["QH"], r.host())
	}
	if m["IP"] != r.IP.String() {
		return fmt.Errorf("IP = %v, recorded %q", m["IP"], r.IP)
	}
	cid, _ := m["CID"].(string)
	if cid != r.ClientID {
		return fmt.Errorf("CID = %q, recorded %q", cid, r.ClientID)
	}
	ups, _ := m["Upstream"].(string)
	if ups != r.Upstream {
		return fmt.Errorf("Upstream = %q, recorded %q", ups, r.Upstream)
	}
	wantRes := vfC07Norm(r.Result)
	if !reflect.DeepEqual(m["Result"], wantRes) {
		return fmt.Errorf("Result = %s, recorded %s", vfC07JSON(m["Result"]), vfC07JSON(wantRes))
	}

	return nil
}

// sample renders the case for the evidence file.
func (s *vfC07Sys) sample() (v map[string]any) {
	keys := make([]string, 0, len(s.crossings))
	for k := range s.crossings {
		keys = append(keys, k)
	}
	sort.Strings(keys)
	if len(keys) > 6 {
		keys = keys[:6]
	}
	h := s.history
	if len(h) > 60 {
		h = append(append([]string{}, h[:30]...), fmt.Sprintf("... %d more ...", len(h)-30))
	}

	return map[string]any{
		"final_layout_rotated/file/memory": s.layout(), "mem_size": s.memSize, "file_enabled": s.fileEnabled,
		"history": h, "boundary_crossing_paged_reads": len(s.crossings), "requests": s.requests,
	}
}

const (
	vfC07SigCursor = "cursor-of-memory-entry-skips-newest-file-entry"
	vfC07SigLimit  = "negative-or-overflowing-limit-offset-panics"
	// a search term that spans a byte which JSON escapes (& < >) in a stored
	// name does not find the entry once it is in a file
	vfC07SigEscaped = "search-term-over-json-escaped-byte-misses-file-entries"
)
