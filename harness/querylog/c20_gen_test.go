//go:build verif

package querylog

// C20 — reverse reading and timestamp seek of query-log files.
//
// This file holds what the three C20 tests share: the generator of log files
// (built, not filtered: line lengths and totals are chosen so that the 1.6 MB
// reverse-reading window and the 32 KiB probe window split lines at chosen
// relative positions), the reference model (the list of lines, reversed), a
// cursor model for histories of seek/read operations, and the termination
// watchdog.
//
// The numbers below are taken from the property text ("16 KiB entry limit",
// "buffers of 1.6 MB and 32 KiB probes"), deliberately not from the package
// constants: shrinking the limits in the code must not shrink the domain the
// check explores.

import (
	"errors"
	"fmt"
	"io"
	"os"
	"path/filepath"
	"runtime/debug"
	"strings"
	"syscall"
	"time"

	"github.com/AdguardTeam/AdGuardHome/internal/vfkit"
	"pgregory.net/rapid"
)

var vfC20 = vfkit.For("C20")

const (
	// vfC20Limit is the entry limit of the property text; generated lines are
	// strictly shorter (content without the line break).
	vfC20Limit = 16 * 1024

	// vfC20MaxLine is the longest generated line.
	vfC20MaxLine = vfC20Limit - 1

	// vfC20Window is the reverse-reading window of the property text.
	vfC20Window = 100 * vfC20Limit

	// vfC20MinExact is the smallest requested length that the line builder is
	// guaranteed to produce exactly (shorter requests yield the minimal line).
	vfC20MinExact = 64

	// vfC20MinFill is the smallest non-zero byte total vfC20FillPlan accepts.
	vfC20MinFill = vfC20MinExact + 1

	// vfC20Edge is the distance (bytes) that counts as "adjacent to a buffer
	// edge" in the non-trivial rule.
	vfC20Edge = 64

	// vfC20Watchdog bounds every single operation (DESIGN §3.5), in CPU time
	// of the test process.
	vfC20Watchdog = 10 * time.Second

	// vfC20Standstill is the wall time after which an operation that neither
	// finishes nor uses CPU makes the case inconclusive.
	vfC20Standstill = 10 * time.Minute

	// vfC20KnownEmpty is the known-findings signature under which seeks in
	// zero-length files are excluded from generation.
	vfC20KnownEmpty = "empty-file-seek-eof"
)

// vfC20Alpha is the filler alphabet (no quote, no line break, no backslash).
const vfC20Alpha = "ABCDEFGHIJKLMNOPQRSTUVWXYZabcdefghijklmnopqrstuvwxyz0123456789+/"

var vfC20Filler = strings.Repeat(vfC20Alpha, vfC20Limit/len(vfC20Alpha)+2)

var vfC20Zones = []*time.Location{
	time.UTC,
	time.FixedZone("", 3*3600),
	time.FixedZone("", -(7*3600 + 1800)),
	time.FixedZone("", 2*3600),
	time.FixedZone("", 12*3600+45*60),
}

// vfC20File is the model of one generated log file: its lines in file
// (chronological) order.
type vfC20File struct {
	Lines []string
	TS    []int64
	// Off[i] is the byte offset of the first byte of line i; Off[len(Lines)]
	// is the file size.
	Off []int64
	// Tail, if not empty, follows the last complete line without a line
	// break: the beginning of a record whose writing is in progress (a flush
	// appends many records with one write) or was cut short (crash, full
	// disk).  It is not a line of the file.
	Tail string
}

func (f *vfC20File) size() (n int64) { return f.Off[len(f.Lines)] }

func (f *vfC20File) bytes() (b []byte) {
	b = make([]byte, 0, f.size())
	for _, l := range f.Lines {
		b = append(b, l...)
		b = append(b, '\n')
	}
	b = append(b, f.Tail...)

	return b
}

// lengths returns the line lengths, the canonical description of a layout.
func (f *vfC20File) lengths() (ls []int) {
	ls = make([]int, len(f.Lines))
	for i, l := range f.Lines {
		ls[i] = len(l)
	}

	return ls
}

func (f *vfC20File) maxLine() (m int) {
	for _, l := range f.Lines {
		m = max(m, len(l))
	}

	return m
}

// vfC20Builder appends lines with strictly increasing timestamps to the file
// being built; timestamps keep increasing across the files of one case.
type vfC20Builder struct {
	t        *rapid.T
	ts       int64
	base     int64
	idx      int
	zoneMode int
	flavour  int
	cur      *vfC20File
}

var vfC20GapGen = rapid.OneOf(
	rapid.SampledFrom([]int64{1, 1, 2, 3, 1000, 1_000_000, 1_000_000_000, 60_000_000_000, 3_600_000_000_000,
		86_400_000_000_000, 3 * 86_400_000_000_000}),
	rapid.Int64Range(1, 1_000_000_000),
	rapid.Int64Range(1, 5*86_400_000_000_000),
)

func vfC20NewBuilder(t *rapid.T) (b *vfC20Builder) {
	// 2000-01-01 .. 2100-01-01 in Unix nanoseconds; never the epoch itself
	// (a zero timestamp is the package's "no timestamp" marker).
	base := rapid.Int64Range(946_684_800_000_000_000, 4_102_444_800_000_000_000).Draw(t, "base_ts")
	if rapid.IntRange(0, 3).Draw(t, "round_base") == 0 {
		// whole seconds: the shortest timestamp text
		base -= base % 1_000_000_000
	}

	return &vfC20Builder{
		t:        t,
		ts:       base,
		base:     base,
		zoneMode: rapid.IntRange(0, 3).Draw(t, "zone_mode"),
		flavour:  rapid.IntRange(0, 4).Draw(t, "flavour"),
	}
}

// newFile starts the next file of the case.
func (b *vfC20Builder) newFile() { b.cur = &vfC20File{Off: []int64{0}} }

// finish returns the file built so far.
func (b *vfC20Builder) finish() (f *vfC20File) {
	f = b.cur
	b.cur = nil

	return f
}

func (b *vfC20Builder) zone() (loc *time.Location) {
	switch b.zoneMode {
	case 0:
		return time.UTC
	case 1:
		return vfC20Zones[1]
	case 2:
		// an offset change in the middle, as on a DST day
		if b.idx%16 < 8 {
			return vfC20Zones[3]
		}

		return vfC20Zones[1]
	default:
		return vfC20Zones[b.idx%len(vfC20Zones)]
	}
}

// vfC20MakeLine renders a log line of exactly n bytes when n >= vfC20MinExact
// (the minimal line otherwise).  Flavours: 0 short form, 1 the form written by
// the current encoder, 2 the legacy "Time" form, 4 the address-first form.
func vfC20MakeLine(tsText string, n, idx, flavour int) (line string) {
	var head, tail string
	switch flavour {
	case 1:
		head = `{"T":"` + tsText + `","QH":"h` + fmt.Sprint(idx%1000) + `.example.org","QT":"A","QC":"IN","CP":"","Answer":"`
		tail = `","Result":{},"Elapsed":66286385,"Upstream":"tls://dns.example:853"}`
	case 2:
		head = `{"Time":"` + tsText + `","IP":"192.0.2.1","Question":"`
		tail = `"}`
	case 4:
		// the layout of earlier releases (and of the fixtures of the package's
		// own tests): the address comes first, here a long one
		head = `{"IP":"` + []string{"2001:db8:85a3:8d3:1319:8a2e:370:7348", "::ffff:203.0.113.77", "10.0.0.1"}[idx%3] + `","T":"` + tsText + `","QH":"h.example.org","QT":"A","QC":"IN","Answer":"`
		tail = `","Elapsed":837429}`
	default:
		head = `{"T":"` + tsText + `","A":"`
		tail = `"}`
	}
	if n < len(head)+len(tail) {
		head, tail = `{"T":"`+tsText+`","A":"`, `"}`
	}
	if n < len(head)+len(tail) {
		if flavour == 2 {
			return `{"Time":"` + tsText + `"}`
		}

		return `{"T":"` + tsText + `"}`
	}

	pad := n - len(head) - len(tail)
	off := (idx * 7) % len(vfC20Alpha)

	return head + vfC20Filler[off:off+pad] + tail
}

// add appends one line of (about) n bytes and returns its real length.
func (b *vfC20Builder) add(n int) (got int) {
	b.ts += vfC20GapGen.Draw(b.t, "gap")
	fl := b.flavour
	if fl == 3 {
		// mixed
		fl = []int{0, 1, 2, 4}[b.idx%4]
	}
	text := time.Unix(0, b.ts).In(b.zone()).Format(time.RFC3339Nano)
	line := vfC20MakeLine(text, n, b.idx, fl)
	if n >= vfC20MinExact && len(line) != n {
		b.t.Fatalf("VERIF-INCONCLUSIVE line builder: asked %d bytes, built %d", n, len(line))
	}
	if len(line) > vfC20MaxLine {
		b.t.Fatalf("VERIF-INCONCLUSIVE line builder: %d bytes exceeds the domain", len(line))
	}
	b.idx++

	f := b.cur
	f.Off = append(f.Off, f.size()+int64(len(line))+1)
	f.Lines = append(f.Lines, line)
	f.TS = append(f.TS, b.ts)

	return len(line)
}

// addAll appends lines of the planned lengths.
func (b *vfC20Builder) addAll(plan []int) {
	for _, n := range plan {
		b.add(n)
	}
}

var (
	vfC20TinyLen = rapid.IntRange(20, 60)
	vfC20TypLen  = rapid.IntRange(100, 400)
	vfC20MidLen  = rapid.IntRange(400, 4096)
	vfC20BigLen  = rapid.IntRange(4096, vfC20MaxLine)
	vfC20EdgeLen = rapid.SampledFrom([]int{
		vfC20MaxLine, vfC20MaxLine, vfC20MaxLine - 1, vfC20MaxLine - 2, vfC20MaxLine - 3, vfC20MaxLine - 28,
		vfC20Limit / 2, vfC20Limit/2 - 1, vfC20Limit/2 + 1,
	})

	// vfC20AnyLen is the line-length mix of small files.
	vfC20AnyLen = rapid.OneOf(vfC20TinyLen, vfC20TypLen, vfC20TypLen, vfC20MidLen, vfC20BigLen, vfC20EdgeLen)

	// vfC20LongLen is the mix of files meant to exceed the windows; all
	// values are exact lengths.
	vfC20LongLen = rapid.OneOf(vfC20BigLen, vfC20BigLen, vfC20EdgeLen, rapid.IntRange(8193, vfC20MaxLine),
		rapid.IntRange(vfC20MinExact, 400))
)

// vfC20FillPlan returns exact line lengths whose lines, with their line
// breaks, take exactly total bytes.  total is 0 or >= vfC20MinFill.
func vfC20FillPlan(t *rapid.T, total int, gen *rapid.Generator[int]) (plan []int) {
	if total == 0 {
		return nil
	}
	if total < vfC20MinFill {
		t.Fatalf("VERIF-INCONCLUSIVE fill plan: total %d", total)
	}

	rem := total
	for rem > vfC20Limit+vfC20MinExact {
		n := gen.Draw(t, "fill_len")
		n = max(n, vfC20MinExact)
		n = min(n, rem-vfC20MinExact-1, vfC20MaxLine)
		plan = append(plan, n)
		rem -= n + 1
	}
	if rem <= vfC20Limit {
		plan = append(plan, rem-1)
	} else {
		a := rem / 2
		plan = append(plan, a-1, rem-a-1)
	}

	return plan
}

// vfC20Reversed returns a reversed copy.
func vfC20Reversed[E any](s []E) (r []E) {
	r = make([]E, len(s))
	for i, v := range s {
		r[len(s)-1-i] = v
	}

	return r
}

// Layout modes.
const (
	vfC20ModeSmall       = "small"
	vfC20ModeMedium      = "medium"
	vfC20ModeBig         = "big"
	vfC20ModeAlignedRev  = "aligned_reverse"
	vfC20ModeAlignedSeek = "aligned_probe"
)

// vfC20Probe describes the line the first probe of a binary search (the middle
// byte of the file, as documented on seekTS) was built to hit.
type vfC20Probe struct {
	Line int `json:"line"`
	Off  int `json:"offset_in_line"`
	Len  int `json:"line_len"`
}

// buildSmall: 0..40 lines of every length class.
func (b *vfC20Builder) buildSmall() {
	n := rapid.IntRange(0, 40).Draw(b.t, "n_lines")
	for i := 0; i < n; i++ {
		b.add(vfC20AnyLen.Draw(b.t, "len"))
	}
}

// buildMedium: a few dozen mostly long lines: the file is several probe
// windows long, binary searches take several steps through long lines.
func (b *vfC20Builder) buildMedium() {
	n := rapid.IntRange(1, 40).Draw(b.t, "n_lines")
	gen := rapid.OneOf(vfC20BigLen, vfC20BigLen, vfC20EdgeLen, vfC20TypLen, vfC20TinyLen)
	for i := 0; i < n; i++ {
		b.add(gen.Draw(b.t, "len"))
	}
}

// buildBig: total size beyond the reverse-reading window, optionally exactly
// k*window+e bytes.
func (b *vfC20Builder) buildBig() {
	var total int
	switch rapid.IntRange(0, 2).Draw(b.t, "big_kind") {
	case 0:
		k := rapid.IntRange(1, 2).Draw(b.t, "windows")
		total = k*vfC20Window + rapid.IntRange(-2, 3).Draw(b.t, "excess")
	case 1:
		total = rapid.IntRange(vfC20Window-vfC20Limit, vfC20Window+3*vfC20Limit).Draw(b.t, "total")
	default:
		total = rapid.IntRange(vfC20Window+1, 3*vfC20Window+vfC20Window/2).Draw(b.t, "total")
	}

	// runs of short lines between the long ones move the window edges
	gen := vfC20LongLen
	if rapid.IntRange(0, 3).Draw(b.t, "short_runs") == 0 {
		gen = rapid.OneOf(vfC20BigLen, vfC20BigLen, vfC20BigLen, vfC20EdgeLen, rapid.IntRange(vfC20MinExact, 2000))
	}
	b.addAll(vfC20FillPlan(b.t, total, gen))
}

// buildAlignedReverse builds a file in which chosen lines end at chosen
// distances from the start of the reverse-reading window.  The window is
// anchored at the position reading starts from (the end of the file, later the
// line at which it is re-read): a line that ends T bytes before the anchor
// ends window-T bytes into the window.  The re-read rule of the property
// ("a line shorter than the limit is always wholly inside the window") is at
// its edge when that distance is the entry limit +/- a few bytes.
func (b *vfC20Builder) buildAlignedReverse() {
	t := b.t
	var fromEnd []int

	segs := rapid.IntRange(1, 2).Draw(t, "segments")
	prevD, prevX := 0, 0
	for s := 0; s < segs; s++ {
		var d, x int
		if rapid.IntRange(0, 2).Draw(t, "edge_kind") == 0 {
			// the longest line, ending exactly at / one byte short of the
			// distance that still holds it
			d = rapid.SampledFrom([]int{0, 0, -1, -1, 1}).Draw(t, "edge_delta")
			x = vfC20MaxLine
		} else {
			d = rapid.IntRange(-3, 3).Draw(t, "edge_delta")
			x = rapid.OneOf(vfC20EdgeLen, vfC20EdgeLen, rapid.IntRange(8193, vfC20MaxLine)).Draw(t, "edge_line_len")
		}
		dist := vfC20Window - vfC20Limit - d
		if s > 0 && prevD < 0 {
			// the previous chosen line is itself the new anchor
			dist -= prevX + 1
		}
		fill := vfC20FillPlan(t, dist, vfC20LongLen)
		// the fill is laid out towards the start of the file
		fromEnd = append(fromEnd, vfC20Reversed(fill)...)
		fromEnd = append(fromEnd, x)
		prevD, prevX = d, x
	}

	// what precedes decides whether the last window starts at offset 0, 1, 2
	// or far inside the file
	switch rapid.IntRange(0, 3).Draw(t, "prefix_kind") {
	case 0:
		n := rapid.IntRange(0, 3).Draw(t, "n_prefix")
		for i := 0; i < n; i++ {
			b.add(vfC20AnyLen.Draw(t, "len"))
		}
	default:
		n := rapid.IntRange(2, 12).Draw(t, "n_prefix")
		for i := 0; i < n; i++ {
			b.add(vfC20LongLen.Draw(t, "len"))
		}
	}
	b.addAll(vfC20Reversed(fromEnd))
}

// buildAlignedProbe builds a file whose middle byte — the first probe of the
// binary search — is byte off of a chosen (long) line, so that the 32 KiB probe
// window starts/ends at chosen distances from the line's ends.
func (b *vfC20Builder) buildAlignedProbe() (p vfC20Probe) {
	t := b.t
	x := rapid.OneOf(vfC20EdgeLen, vfC20EdgeLen, rapid.IntRange(8193, vfC20MaxLine), vfC20TypLen).Draw(t, "probe_line_len")
	var off int
	switch rapid.IntRange(0, 5).Draw(t, "probe_off_kind") {
	case 0:
		off = 0
	case 1:
		off = x // the line break of the line
	case 2:
		off = x - 1
	case 3:
		off = rapid.IntRange(0, 3).Draw(t, "probe_off")
	case 4:
		off = x - rapid.IntRange(0, 3).Draw(t, "probe_off_back")
	default:
		off = rapid.IntRange(0, x).Draw(t, "probe_off")
	}
	par := rapid.IntRange(0, 1).Draw(t, "size_parity")

	n := rapid.IntRange(0, 12).Draw(t, "n_prefix")
	gen := rapid.OneOf(vfC20AnyLen, vfC20LongLen)
	for i := 0; i < n; i++ {
		b.add(gen.Draw(t, "len"))
	}
	// suffix size that makes size/2 == prefix+off
	suffix := func() int { return int(b.cur.size()) + 2*off + par - x - 1 }
	for suffix() != 0 && suffix() < vfC20MinFill {
		b.add(vfC20LongLen.Draw(t, "len"))
	}

	p = vfC20Probe{Line: len(b.cur.Lines), Off: off, Len: x}
	s := suffix()
	prefix := b.cur.size()
	b.add(x)
	b.addAll(vfC20FillPlan(t, s, rapid.OneOf(vfC20AnyLen, vfC20LongLen)))
	if b.cur.size()/2 != prefix+int64(off) {
		t.Fatalf("VERIF-INCONCLUSIVE aligned probe: size %d, prefix %d, off %d", b.cur.size(), prefix, off)
	}

	return p
}

// build builds one file of the mode.
func (b *vfC20Builder) build(mode string) (f *vfC20File, p *vfC20Probe) {
	b.newFile()
	switch mode {
	case vfC20ModeSmall:
		b.buildSmall()
	case vfC20ModeMedium:
		b.buildMedium()
	case vfC20ModeBig:
		b.buildBig()
	case vfC20ModeAlignedRev:
		b.buildAlignedReverse()
	case vfC20ModeAlignedSeek:
		pr := b.buildAlignedProbe()
		p = &pr
	default:
		b.t.Fatalf("VERIF-INCONCLUSIVE unknown mode %q", mode)
	}

	return b.finish(), p
}

// vfC20DrawMode draws a mode by weight (weights sum to anything).
func vfC20DrawMode(t *rapid.T, weights map[string]int) (mode string) {
	order := []string{vfC20ModeSmall, vfC20ModeMedium, vfC20ModeBig, vfC20ModeAlignedRev, vfC20ModeAlignedSeek}
	total := 0
	for _, m := range order {
		total += weights[m]
	}
	x := rapid.IntRange(0, total-1).Draw(t, "mode")
	for _, m := range order {
		if x < weights[m] {
			return m
		}
		x -= weights[m]
	}

	return vfC20ModeSmall
}

// vfC20TempDir makes the private directory of a case.
func vfC20TempDir(t *rapid.T) (dir string) {
	dir, err := os.MkdirTemp("", "vfc20-")
	if err != nil {
		t.Fatalf("VERIF-INCONCLUSIVE temp dir: %v", err)
	}

	return dir
}

// vfC20Write stores the file of the model.
func vfC20Write(t *rapid.T, dir, name string, f *vfC20File) (path string) {
	path = filepath.Join(dir, name)
	if rapid.IntRange(0, 5).Draw(t, name+"_unterminated_tail") == 0 {
		next := `{"T":"2100-01-01T00:00:00.123456789Z","QH":"tail.example","QT":"A","QC":"IN","CP":"","Answer":"AAAA","IP":"192.0.2.9","Elapsed":1}`
		f.Tail = next[:rapid.SampledFrom([]int{1, 5, 6, 12, 30, 37, 38, 60, len(next)}).Draw(t, name+"_tail_cut")]
		vfC20.Class("file:unterminated_tail")
	}
	err := os.WriteFile(path, f.bytes(), 0o644)
	if err != nil {
		t.Fatalf("VERIF-INCONCLUSIVE writing %s: %v", path, err)
	}

	return path
}

// vfC20Fataler is what both *rapid.T and *testing.T offer.
type vfC20Fataler interface {
	Fatalf(format string, args ...any)
}

// vfC20Guard runs fn under the termination watchdog and turns a panic of the
// code under test into a failure that rapid can shrink.  fn runs on its own
// goroutine and therefore reports a violation by returning a complaint instead
// of failing the test itself.
func vfC20Guard(t vfC20Fataler, what string, fn func() (complaint string)) {
	type outcome struct {
		p     any
		stack []byte
		msg   string
	}
	done := make(chan outcome, 1)
	go func() {
		var msg string
		defer func() {
			if r := recover(); r != nil {
				done <- outcome{p: r, stack: debug.Stack()}

				return
			}
			done <- outcome{msg: msg}
		}()
		msg = fn()
	}()

	finish := func(o outcome) {
		if o.p != nil {
			t.Fatalf("panic in %s: %v\n%s", what, o.p, o.stack)
		}
		if o.msg != "" {
			t.Fatalf("%s: %s", what, o.msg)
		}
	}

	// Operations take micro- to milliseconds.  The budget is counted in CPU
	// time of this process, not in wall time: on an overloaded machine a read
	// can stall for seconds without the code under test looping, whereas a
	// loop burns CPU.  Only a complete standstill for vfC20Standstill of wall
	// time makes the case inconclusive.
	grace := time.NewTimer(time.Second)
	defer grace.Stop()
	select {
	case o := <-done:
		finish(o)

		return
	case <-grace.C:
	}

	cpu0, wall0 := vfC20CPUTime(), time.Now()
	tick := time.NewTicker(200 * time.Millisecond)
	defer tick.Stop()
	for {
		select {
		case o := <-done:
			vfC20.Class("watchdog:slow_operation_finished")
			finish(o)

			return
		case <-tick.C:
			if used := vfC20CPUTime() - cpu0; used > vfC20Watchdog {
				t.Fatalf("%s did not terminate within %s of CPU time", what, vfC20Watchdog)
			}
			if time.Since(wall0) > vfC20Standstill {
				t.Fatalf("VERIF-INCONCLUSIVE %s: no result after %s of wall time and less than %s of CPU time",
					what, vfC20Standstill, vfC20Watchdog)
			}
		}
	}
}

// vfC20CPUTime returns the CPU time (user+system) this process has used.
func vfC20CPUTime() (d time.Duration) {
	var ru syscall.Rusage
	if err := syscall.Getrusage(syscall.RUSAGE_SELF, &ru); err != nil {
		return 0
	}

	return time.Duration(ru.Utime.Nano() + ru.Stime.Nano())
}

// vfC20Short renders a line for a failure message.
func vfC20Short(s string) (r string) {
	if len(s) <= 90 {
		return fmt.Sprintf("%q (len %d)", s, len(s))
	}

	return fmt.Sprintf("%q…%q (len %d)", s[:60], s[len(s)-20:], len(s))
}

// vfC20Diff describes how got differs from want.
func vfC20Diff(got, want string) (r string) {
	i := 0
	for i < len(got) && i < len(want) && got[i] == want[i] {
		i++
	}
	j := 0
	for j < len(got)-i && j < len(want)-i && got[len(got)-1-j] == want[len(want)-1-j] {
		j++
	}

	return fmt.Sprintf("got %s, want %s; common prefix %d bytes, common suffix %d bytes",
		vfC20Short(got), vfC20Short(want), i, j)
}

// vfC20Cursor is the reference model of a reader: rev is what reading from the
// start must return; pos is the index in rev of the line the next read must
// return (len(rev): end reached).
type vfC20Cursor struct {
	rev   []string
	index map[string]int
	pos   int
	// alts, when set, lists the positions the last (successful, ambiguous)
	// seek may have chosen; the next read decides.
	alts []int
	// unknown is set while the reader has never been positioned: the first
	// read must return a whole stored line (or the end) and reading continues
	// from there.
	unknown bool
}

func vfC20NewCursor(filesOldToNew ...*vfC20File) (c *vfC20Cursor) {
	c = &vfC20Cursor{}
	for i := len(filesOldToNew) - 1; i >= 0; i-- {
		f := filesOldToNew[i]
		if f == nil {
			continue
		}
		for j := len(f.Lines) - 1; j >= 0; j-- {
			c.rev = append(c.rev, f.Lines[j])
		}
	}

	return c
}

func (c *vfC20Cursor) lookup(line string) (i int, ok bool) {
	if c.index == nil {
		c.index = make(map[string]int, len(c.rev))
		for i, l := range c.rev {
			c.index[l] = i
		}
	}
	i, ok = c.index[line]

	return i, ok
}

// seekFailed records a seek that reported an error.  "Without mis-positioning
// subsequent reads" is read as: a seek that fails leaves the reader where it
// was, so the model does not move (a pending choice between permitted
// positions stays pending).
func (c *vfC20Cursor) seekFailed() {
	vfC20.Class("failed_seek_then_model_unmoved")
}

// setUnknown marks the reader as never positioned.
func (c *vfC20Cursor) setUnknown() { c.unknown, c.alts = true, nil }

// set places the cursor.
func (c *vfC20Cursor) set(pos int) { c.pos, c.unknown, c.alts = pos, false, nil }

// setOneOf places the cursor on one of several permitted positions.
func (c *vfC20Cursor) setOneOf(alts ...int) {
	c.unknown = false
	c.alts = alts
	if len(alts) == 1 || (len(alts) == 2 && alts[0] == alts[1]) {
		c.set(alts[0])
	}
}

// observe checks the outcome of one read against the model.  It returns a
// non-empty complaint on violation.
func (c *vfC20Cursor) observe(line string, err error) (complaint string) {
	n := len(c.rev)
	if err != nil {
		if !errors.Is(err, io.EOF) {
			return fmt.Sprintf("read failed: %v", err)
		}
		switch {
		case c.unknown:
			c.set(n)
		case c.alts != nil:
			for _, a := range c.alts {
				if a == n {
					c.set(n)

					return ""
				}
			}

			return fmt.Sprintf("end of log reported, but the seek may only have positioned on one of the entries #%v of %d (counted from the newest)", c.alts, n)
		case c.pos != n:
			return fmt.Sprintf("end of log reported after %d of %d lines; next line was %s", c.pos, n, vfC20Short(c.rev[c.pos]))
		}

		return ""
	}

	switch {
	case c.unknown:
		i, ok := c.lookup(line)
		if !ok {
			return fmt.Sprintf("the read of a never positioned reader returned something that is not a stored line: %s", vfC20Short(line))
		}
		c.set(i + 1)
	case c.alts != nil:
		for k, a := range c.alts {
			if a < n && c.rev[a] == line {
				vfC20.Class(fmt.Sprintf("ambiguous_seek:choice_%d", k))
				c.set(a + 1)

				return ""
			}
		}

		return fmt.Sprintf("after the seek the read returned %s; permitted were the entries #%v (counted from the newest)", vfC20Short(line), c.alts)
	case c.pos >= n:
		return fmt.Sprintf("a line was returned after the oldest one: %s", vfC20Short(line))
	case line != c.rev[c.pos]:
		what := "not a stored line"
		if i, ok := c.lookup(line); ok {
			what = fmt.Sprintf("stored line #%d", i)
		}

		return fmt.Sprintf("read #%d (counted from the newest, of %d) returned %s: %s", c.pos, n, what, vfC20Diff(line, c.rev[c.pos]))
	default:
		c.pos++
	}

	return ""
}

// vfC20IsSeekClass reports whether err is one of the three stated outcomes of
// seeking an absent timestamp.
func vfC20IsSeekClass(err error) (ok bool) {
	return errors.Is(err, errTSNotFound) || errors.Is(err, errTSTooEarly) || errors.Is(err, errTSTooLate)
}

// vfC20EmptyExcluded reports whether the known finding about seeks in empty
// files is listed as open (HARNESS_GUIDE rule 10).
func vfC20EmptyExcluded() (ok bool) {
	_, ok = vfkit.KnownOpen("C20", vfC20KnownEmpty)

	return ok
}
