//go:build verif

package querylog

// C05 (query log part): recording queries while the log is read, reconfigured,
// cleared, flushed and rotated never races or panics.  Run under the race
// detector; the program is written to program.json before it runs.

import (
	"bytes"
	"context"
	"encoding/json"
	"fmt"
	"io"
	"net"
	"net/http"
	"net/http/httptest"
	"os"
	"path/filepath"
	"runtime"
	"runtime/debug"
	"strings"
	"sync"
	"sync/atomic"
	"testing"
	"time"

	"github.com/AdguardTeam/AdGuardHome/internal/aghnet"
	"github.com/AdguardTeam/AdGuardHome/internal/filtering"
	"github.com/AdguardTeam/AdGuardHome/internal/vfkit"
	"github.com/AdguardTeam/golibs/log"
	"github.com/AdguardTeam/golibs/logutil/slogutil"
	"github.com/AdguardTeam/golibs/timeutil"
	"github.com/miekg/dns"
	"pgregory.net/rapid"
)

var vfC05Q = vfkit.For("C05")

// vfC05QProgram is a concurrent program over one query log.
type vfC05QProgram struct {
	MemSize  uint       `json:"mem_size"`
	Writers  [][]string `json:"writers"` // host names to record
	Admins   [][]string `json:"admins"`  // mutating operations (serialised with each other)
	Readers  [][]string `json:"readers"` // unserialised reads and background work
	Anonymse bool       `json:"anonymise_at_start"`
}

var (
	vfC05QAdminOps  = []string{"config_on", "config_off", "config_anon", "clear", "legacy_config"}
	vfC05QReaderOps = []string{"get", "get_search", "get_paged", "config_get", "write_disk_config", "should_log", "rotate_check", "flush", "info"}
)

func TestVFC05QueryLogPrograms(t *testing.T) {
	vfkit.Begin(t)
	log.SetOutput(io.Discard)

	run := func(t interface{ Fatalf(string, ...any) }, p *vfC05QProgram) {
		dir, err := os.MkdirTemp("", "vfc05q")
		if err != nil {
			t.Fatalf("VERIF-INCONCLUSIVE mkdir: %v", err)
		}
		defer os.RemoveAll(dir)

		routes := map[string]http.HandlerFunc{}
		ignored, _ := aghnet.NewIgnoreEngine([]string{"ignored.example"})
		var anon aghnet.IPMutFunc
		if p.Anonymse {
			anon = AnonymizeIP
		}
		l, err := newQueryLog(Config{
			Logger: slogutil.NewDiscardLogger(), Ignored: ignored, Anonymizer: aghnet.NewIPMut(anon),
			ConfigModified: func() {}, HTTPRegister: func(m, path string, h http.HandlerFunc) { routes[m+" "+path] = h },
			FindClient: func(ids []string) (c *Client, ferr error) {
				if len(ids) == 0 {
					return nil, nil
				}

				return &Client{Name: "c-" + ids[0]}, nil
			},
			BaseDir: dir, RotationIvl: timeutil.Day, MemSize: p.MemSize, Enabled: true, FileEnabled: true,
			AnonymizeClientIP: p.Anonymse,
		})
		if err != nil {
			t.Fatalf("VERIF-INCONCLUSIVE newQueryLog: %v", err)
		}
		l.initWeb()
		ctx := context.Background()

		var failMu sync.Mutex
		var failures []string
		fail := func(format string, args ...any) {
			failMu.Lock()
			defer failMu.Unlock()
			if len(failures) < 3 {
				failures = append(failures, fmt.Sprintf(format, args...))
			}
		}
		guard := func(what string) {
			if v := recover(); v != nil {
				fail("panic in %s: %v\n%s", what, v, debug.Stack())
			}
		}
		call := func(method, path, body string) {
			defer guard(method + " " + path)
			h := routes[method+" "+strings.SplitN(path, "?", 2)[0]]
			if h == nil {
				fail("VERIF-INCONCLUSIVE no handler for %s %s", method, path)

				return
			}
			var r *http.Request
			if body != "" {
				r = httptest.NewRequest(method, path, bytes.NewReader([]byte(body)))
			} else {
				r = httptest.NewRequest(method, path, nil)
			}
			rec := httptest.NewRecorder()
			h(rec, r)
			if rec.Code == http.StatusOK && strings.HasPrefix(path, "/control/querylog?") {
				var doc map[string]any
				if jerr := json.Unmarshal(rec.Body.Bytes(), &doc); jerr != nil {
					fail("GET %s: malformed JSON: %v", path, jerr)
				}
			}
		}

		var control sync.Mutex
		var wg sync.WaitGroup
		var adds, progress atomic.Int64
		start := make(chan struct{})
		for _, ws := range p.Writers {
			wg.Add(1)
			go func(hosts []string) {
				defer wg.Done()
				<-start
				for i, hst := range hosts {
					func() {
						defer guard("Add")
						req := &dns.Msg{}
						req.SetQuestion(hst+".", dns.TypeA)
						resp := (&dns.Msg{}).SetReply(req)
						resp.Answer = []dns.RR{&dns.A{Hdr: dns.RR_Header{Name: hst + ".", Rrtype: dns.TypeA, Class: dns.ClassINET, Ttl: 5}, A: net.IP{10, 0, 0, byte(i)}}}
						l.Add(&AddParams{
							Question: req, Answer: resp, Result: &filtering.Result{}, ClientIP: net.IP{192, 0, 2, byte(i)},
							Upstream: "u", Elapsed: time.Millisecond,
						})
						adds.Add(1)
					}()
					progress.Add(1)
					if i%3 == 0 {
						runtime.Gosched()
					}
				}
			}(ws)
		}
		doOp := func(op string, mutating bool) {
			if mutating {
				control.Lock()
				defer control.Unlock()
			}
			switch op {
			case "config_on":
				call(http.MethodPut, "/control/querylog/config/update", `{"enabled":true,"anonymize_client_ip":false,"interval":86400000,"ignored":["ignored.example"]}`)
			case "config_off":
				call(http.MethodPut, "/control/querylog/config/update", `{"enabled":false,"anonymize_client_ip":false,"interval":86400000,"ignored":[]}`)
			case "config_anon":
				call(http.MethodPut, "/control/querylog/config/update", `{"enabled":true,"anonymize_client_ip":true,"interval":604800000,"ignored":["x.example"]}`)
			case "legacy_config":
				call(http.MethodPost, "/control/querylog_config", `{"enabled":true,"interval":1,"anonymize_client_ip":false}`)
			case "clear":
				call(http.MethodPost, "/control/querylog_clear", "")
			case "get":
				call(http.MethodGet, "/control/querylog?limit=50", "")
			case "get_search":
				call(http.MethodGet, "/control/querylog?search=host&response_status=processed&limit=20", "")
			case "get_paged":
				call(http.MethodGet, "/control/querylog?limit=5&offset=3", "")
			case "config_get":
				call(http.MethodGet, "/control/querylog/config", "")
			case "info":
				call(http.MethodGet, "/control/querylog_info", "")
			case "write_disk_config":
				func() {
					defer guard("WriteDiskConfig")
					c := &Config{}
					l.WriteDiskConfig(c)
				}()
			case "should_log":
				func() {
					defer guard("ShouldLog")
					_ = l.ShouldLog("host-1.example", dns.TypeA, dns.ClassINET, []string{"192.0.2.1"})
				}()
			case "rotate_check":
				func() {
					defer guard("checkAndRotate")
					l.checkAndRotate(ctx)
				}()
			case "flush":
				func() {
					defer guard("flushLogBuffer")
					_ = l.flushLogBuffer(ctx)
				}()
			}
		}
		for _, ops := range p.Admins {
			wg.Add(1)
			go func(ops []string) {
				defer wg.Done()
				<-start
				for _, op := range ops {
					doOp(op, true)
					progress.Add(1)
				}
			}(ops)
		}
		for _, ops := range p.Readers {
			wg.Add(1)
			go func(ops []string) {
				defer wg.Done()
				<-start
				for _, op := range ops {
					doOp(op, false)
					progress.Add(1)
					runtime.Gosched()
				}
			}(ops)
		}
		done := make(chan struct{})
		go func() { wg.Wait(); close(done) }()
		close(start)
		if !vfkit.WaitProgress(done, &progress, 60*time.Second) {
			buf := make([]byte, 1<<20)
			n := runtime.Stack(buf, true)
			t.Fatalf("stall: the query-log program completed no operation for 60s\n%s", buf[:n])
		}
		// After the program the log must still work: with recording switched
		// on, more queries than the memory buffer holds are all retrievable
		// (the buffer is flushed to the file when it is full).
		if p.MemSize <= 20 && len(failures) == 0 {
			call(http.MethodPut, "/control/querylog/config/update", `{"enabled":true,"anonymize_client_ip":false,"interval":86400000,"ignored":[]}`)
			// Records submitted while a memory-to-disk flush is pending may be
			// overwritten in the ring buffer (documented upstream), so each
			// query waits for the pending flush, which must end.
			settled := func() (ok bool) {
				deadline := time.Now().Add(10 * time.Second)
				for {
					l.bufferLock.Lock()
					pending := l.flushPending
					l.bufferLock.Unlock()
					if !pending {
						return true
					}
					if time.Now().After(deadline) {
						return false
					}
					time.Sleep(2 * time.Millisecond)
				}
			}
			nTail := 2*int(p.MemSize) + 2
			for i := 0; i < nTail; i++ {
				if !settled() {
					fail("after the program a flush of the memory buffer stays pending for ever (10 s); no further flush can start")

					break
				}
				hst := fmt.Sprintf("tail-%d.after.example", i)
				req := &dns.Msg{}
				req.SetQuestion(hst+".", dns.TypeA)
				l.Add(&AddParams{
					Question: req, Answer: (&dns.Msg{}).SetReply(req), Result: &filtering.Result{}, ClientIP: net.IP{192, 0, 2, 200},
					Upstream: "u", Elapsed: time.Millisecond,
				})
			}
			got := -1
			deadline := time.Now().Add(10 * time.Second)
			for {
				rec := httptest.NewRecorder()
				routes["GET /control/querylog"](rec, httptest.NewRequest(http.MethodGet, "/control/querylog?search=after.example&limit=200", nil))
				var doc struct {
					Data []json.RawMessage `json:"data"`
				}
				if rec.Code == http.StatusOK && json.Unmarshal(rec.Body.Bytes(), &doc) == nil {
					got = len(doc.Data)
				}
				if got == nTail || time.Now().After(deadline) {
					break
				}
				time.Sleep(20 * time.Millisecond)
			}
			if got != nTail && len(failures) == 0 {
				fail("after the program %d further queries were recorded (memory buffer of %d), the log returns %d of them", nTail, p.MemSize, got)
			}
			vfC05Q.Class("qlog:still_records_after_program")
		}

		// let an asynchronous flush started by the last Add finish
		_ = l.Shutdown(ctx)

		// The records of concurrent requests must be stored in the order of
		// their times: the log's own reader seeks by time in the files, and
		// paging with the older_than cursor relies on that order.
		if len(failures) == 0 {
			var prev time.Time
			lines := 0
			for _, fn := range []string{"querylog.json.1", "querylog.json"} {
				b, rerr := os.ReadFile(filepath.Join(dir, fn))
				if rerr != nil {
					continue
				}
				for _, line := range strings.Split(string(b), "\n") {
					if strings.TrimSpace(line) == "" {
						continue
					}
					var rec struct {
						T time.Time `json:"T"`
					}
					if jerr := json.Unmarshal([]byte(line), &rec); jerr != nil {
						fail("%s: bad line %q: %v", fn, line, jerr)

						break
					}
					if rec.T.Before(prev) {
						fail("%s: a record of %s is stored after a record of %s: concurrent requests were recorded out of time order", fn, rec.T.Format(time.RFC3339Nano), prev.Format(time.RFC3339Nano))

						break
					}
					prev = rec.T
					lines++
				}
			}
			vfC05Q.ClassN("qlog:file_records_checked_for_order", lines)
		}

		vfC05Q.Eval()
		vfC05Q.ClassN("qlog:records_added", int(adds.Load()))
		vfC05Q.Class("qlog:program")
		b, _ := json.Marshal(p)
		vfC05Q.Nontrivial("qlog|" + string(b))
		if len(failures) > 0 {
			t.Fatalf("%s", strings.Join(failures, "\n"))
		}
	}

	if rf := os.Getenv("VERIF_REPLAY_FILE"); rf != "" {
		b, err := os.ReadFile(rf)
		p := &vfC05QProgram{}
		if err != nil || json.Unmarshal(b, p) != nil {
			t.Fatalf("VERIF-INCONCLUSIVE replay file: %v", err)
		}
		for i := 0; i < 20; i++ {
			run(t, p)
		}

		return
	}

	rapid.Check(t, func(t *rapid.T) {
		p := &vfC05QProgram{MemSize: uint(rapid.SampledFrom([]int{1, 2, 5, 20, 1000}).Draw(t, "mem_size")), Anonymse: rapid.Bool().Draw(t, "anonymise")}
		nw := rapid.IntRange(1, 4).Draw(t, "n_writers")
		for g := 0; g < nw; g++ {
			n := rapid.IntRange(5, 60).Draw(t, fmt.Sprintf("w%d_len", g))
			var hosts []string
			for i := 0; i < n; i++ {
				hosts = append(hosts, fmt.Sprintf("host-%d.w%d.example", i%7, g))
			}
			p.Writers = append(p.Writers, hosts)
		}
		na := rapid.IntRange(0, 2).Draw(t, "n_admins")
		for g := 0; g < na; g++ {
			p.Admins = append(p.Admins, rapid.SliceOfN(rapid.SampledFrom(vfC05QAdminOps), 1, 6).Draw(t, fmt.Sprintf("a%d", g)))
		}
		nr := rapid.IntRange(1, 3).Draw(t, "n_readers")
		for g := 0; g < nr; g++ {
			p.Readers = append(p.Readers, rapid.SliceOfN(rapid.SampledFrom(vfC05QReaderOps), 2, 12).Draw(t, fmt.Sprintf("r%d", g)))
		}
		b, _ := json.MarshalIndent(p, "", " ")
		if err := os.WriteFile("program.json", b, 0o644); err != nil {
			t.Fatalf("VERIF-INCONCLUSIVE write program: %v", err)
		}
		run(t, p)
		if vfC05Q.WantSample("qlog_program") {
			vfC05Q.Sample("qlog_program", p)
		}
	})
}
