//go:build verif

package querylog

// C07 (scan budget): a request scans at most 50000 file records; when it finds
// nothing within that budget it must still hand out the cursor to continue
// from, so that paging reaches every recorded query.

import (
	"bufio"
	"encoding/json"
	"fmt"
	"net"
	"net/url"
	"os"
	"path/filepath"
	"testing"
	"time"

	"github.com/AdguardTeam/AdGuardHome/internal/filtering"
	"github.com/AdguardTeam/AdGuardHome/internal/vfkit"
)

func TestVFC07ScanBudget(t *testing.T) {
	vfkit.Begin(t)
	st := vfkit.For("C07")
	s := vfC07NewSys(t, vfC07Clients{}, 100, true, true, false)
	defer s.close()

	// the file is written directly, in the stored line format, oldest first:
	// three rare records, then many common ones
	const common = 60000
	f, err := os.Create(filepath.Join(s.dir, "querylog.json"))
	if err != nil {
		t.Fatalf("VERIF-INCONCLUSIVE create: %v", err)
	}
	w := bufio.NewWriter(f)
	ts := time.Date(2021, 3, 1, 0, 0, 0, 0, time.UTC)
	blockedNext := false
	write := func(host string) {
		ts = ts.Add(1500 * time.Millisecond)
		e := &logEntry{
			Time: ts, QHost: host, QType: "A", QClass: "IN", ClientProto: "", IP: net.IP{192, 0, 2, 1}, Elapsed: time.Millisecond,
		}
		if blockedNext {
			e.Result = filtering.Result{IsFiltered: true, Reason: filtering.FilteredBlockList, Rules: []*filtering.ResultRule{{Text: "||needle.example^", FilterListID: 1}}}
		}
		b, merr := json.Marshal(e)
		if merr != nil {
			t.Fatalf("VERIF-INCONCLUSIVE marshal: %v", merr)
		}
		_, _ = w.Write(b)
		_ = w.WriteByte('\n')
	}
	// the rare records are also the only blocked ones
	blockedNext = true
	for i := 0; i < 3; i++ {
		write(fmt.Sprintf("rare-%d.needle.example", i))
	}
	blockedNext = false
	for i := 0; i < common; i++ {
		write(fmt.Sprintf("host-%d.common.test", i%500))
	}
	if err = w.Flush(); err != nil {
		t.Fatalf("VERIF-INCONCLUSIVE flush: %v", err)
	}
	_ = f.Close()

	status := ""
	page := func(search string, limit int) (total int, requests int) {
		cursor := ""
		for requests = 0; requests < 200; requests++ {
			q := url.Values{"limit": {fmt.Sprint(limit)}}
			if search != "" {
				q.Set("search", search)
			}
			if status != "" {
				q.Set("response_status", status)
			}
			if cursor != "" {
				q.Set("older_than", cursor)
			}
			resp := s.get(q.Encode())
			if resp.Code != 200 {
				t.Fatalf("GET ?%s: status %d %s", q.Encode(), resp.Code, resp.Body)
			}
			total += len(resp.Data)
			if resp.Oldest == "" {
				return total, requests + 1
			}
			cursor = resp.Oldest
		}
		t.Fatalf("cursor paging for search %q does not end after 200 requests", search)

		return total, requests
	}

	got, reqs := page("needle", 10)
	st.Eval()
	st.Class("scan_budget:sparse_search")
	st.Nontrivial("scan_budget|sparse_search")
	if got != 3 {
		t.Fatalf("search for a term matching only the 3 oldest of %d file records, paged by cursor: %d entries in %d requests, want 3",
			common+3, got, reqs)
	}

	got, reqs = page("", 7000)
	st.Eval()
	st.Class("scan_budget:unfiltered_paging")
	st.Nontrivial("scan_budget|unfiltered")
	if got != common+3 {
		t.Fatalf("unfiltered cursor paging over %d file records returned %d entries in %d requests", common+3, got, reqs)
	}
	st.Sample("scan_budget", map[string]any{"file_records": common + 3, "sparse_matches": 3, "requests_unfiltered": reqs})

	// A host is put on the ignore list afterwards: its records are no longer
	// returned, and paging must still reach everything else -- also when the
	// last record a request could scan within its budget is one of them (with
	// a limit above the budget the 50000th newest record ends the scan; it is
	// host-0's).
	code, text := s.post("PUT /control/querylog/config/update", map[string]any{
		"enabled": true, "anonymize_client_ip": false, "interval": 86400000, "ignored": []string{"host-0.common.test", "host-1.common.test", "host-499.common.test"},
	})
	if code != 200 {
		t.Fatalf("VERIF-INCONCLUSIVE config update: %d %s", code, text)
	}
	// a status filter: every record has to be decoded to be judged, the three
	// blocked ones are the oldest
	status = "blocked"
	got, reqs = page("", 10)
	st.Eval()
	st.Class("scan_budget:status_filter_budget_ends_on_ignored_record")
	st.Nontrivial("scan_budget|ignored_at_budget_end|status")
	if got != 3 {
		t.Fatalf("response_status=blocked (only the 3 oldest of %d file records are blocked) with hosts ignored afterwards, paged by cursor: %d entries in %d requests, want 3: "+
			"the scan budget of a request ended on a record of an ignored host and no cursor was handed out", common+3, got, reqs)
	}
	status = ""
	got, reqs = page("", 60000)
	st.Eval()
	st.Class("scan_budget:budget_ends_on_ignored_record")
	st.Nontrivial("scan_budget|ignored_at_budget_end")
	if want := common + 3 - 3*(common/500); got != want {
		t.Fatalf("cursor paging (limit above the scan budget) with host-0 ignored afterwards returned %d entries in %d requests, want %d: "+
			"the records older than the scan budget of the first request were never reached", got, reqs, want)
	}
}
