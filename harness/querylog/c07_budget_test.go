//go:build verif

package querylog

// C07 (scan budget): a request scans at most 50000 file records; when it finds
// nothing within that budget it must still hand out the cursor to continue
// from, so that paging reaches every recorded query.

import (
	"bufio"
	"encoding/json"
	"fmt"
	"net"
	"net/url"
	"os"
	"path/filepath"
	"testing"
	"time"

	"github.com/AdguardTeam/AdGuardHome/internal/vfkit"
)

func TestVFC07ScanBudget(t *testing.T) {
	vfkit.Begin(t)
	st := vfkit.For("C07")
	s := vfC07NewSys(t, vfC07Clients{}, 100, true, true, false)
	defer s.close()

	// the file is written directly, in the stored line format, oldest first:
	// three rare records, then many common ones
	const common = 60000
	f, err := os.Create(filepath.Join(s.dir, "querylog.json"))
	if err != nil {
		t.Fatalf("VERIF-INCONCLUSIVE create: %v", err)
	}
	w := bufio.NewWriter(f)
	ts := time.Date(2021, 3, 1, 0, 0, 0, 0, time.UTC)
	write := func(host string) {
		ts = ts.Add(1500 * time.Millisecond)
		b, merr := json.Marshal(&logEntry{
			Time: ts, QHost: host, QType: "A", QClass: "IN", ClientProto: "", IP: net.IP{192, 0, 2, 1}, Elapsed: time.Millisecond,
		})
		if merr != nil {
			t.Fatalf("VERIF-INCONCLUSIVE marshal: %v", merr)
		}
		_, _ = w.Write(b)
		_ = w.WriteByte('\n')
	}
	for i := 0; i < 3; i++ {
		write(fmt.Sprintf("rare-%d.needle.example", i))
	}
	for i := 0; i < common; i++ {
		write(fmt.Sprintf("host-%d.common.test", i%500))
	}
	if err = w.Flush(); err != nil {
		t.Fatalf("VERIF-INCONCLUSIVE flush: %v", err)
	}
	_ = f.Close()

	page := func(search string, limit int) (total int, requests int) {
		cursor := ""
		for requests = 0; requests < 200; requests++ {
			q := url.Values{"limit": {fmt.Sprint(limit)}}
			if search != "" {
				q.Set("search", search)
			}
			if cursor != "" {
				q.Set("older_than", cursor)
			}
			resp := s.get(q.Encode())
			if resp.Code != 200 {
				t.Fatalf("GET ?%s: status %d %s", q.Encode(), resp.Code, resp.Body)
			}
			total += len(resp.Data)
			if resp.Oldest == "" {
				return total, requests + 1
			}
			cursor = resp.Oldest
		}
		t.Fatalf("cursor paging for search %q does not end after 200 requests", search)

		return total, requests
	}

	got, reqs := page("needle", 10)
	st.Eval()
	st.Class("scan_budget:sparse_search")
	st.Nontrivial("scan_budget|sparse_search")
	if got != 3 {
		t.Fatalf("search for a term matching only the 3 oldest of %d file records, paged by cursor: %d entries in %d requests, want 3",
			common+3, got, reqs)
	}

	got, reqs = page("", 7000)
	st.Eval()
	st.Class("scan_budget:unfiltered_paging")
	st.Nontrivial("scan_budget|unfiltered")
	if got != common+3 {
		t.Fatalf("unfiltered cursor paging over %d file records returned %d entries in %d requests", common+3, got, reqs)
	}
	st.Sample("scan_budget", map[string]any{"file_records": common + 3, "sparse_matches": 3, "requests_unfiltered": reqs})
}
