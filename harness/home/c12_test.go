//go:build verif

package home

// C12: login throttling and session lifetime.

import (
	"fmt"
	"net/http"
	"net/http/httptest"
	"net/netip"
	"os"
	"path/filepath"
	"strconv"
	"strings"
	"sync"
	"testing"
	"time"

	"github.com/AdguardTeam/AdGuardHome/internal/vfkit"
	"github.com/AdguardTeam/golibs/netutil"
	"golang.org/x/crypto/bcrypt"
	"pgregory.net/rapid"
)

var vfC12 = vfkit.For("C12")

// vfC12Users are the accounts of the C12 cases (bcrypt minimum cost).
func vfC12Users() (us []webUser) {
	hash, err := bcrypt.GenerateFromPassword([]byte(vfAdminPass), bcrypt.MinCost)
	if err != nil {
		panic(err)
	}

	return []webUser{{Name: vfAdminUser, PasswordHash: string(hash)}}
}

// vfLimModel is the reference model of the login throttle, written from the
// statement: failures are counted while the record opened by the first failure
// is alive (one minute); reaching the limit blocks the address for the block
// duration from that moment; a success before the limit clears the count; while
// blocked nothing is evaluated and nothing changes.
type vfLimModel struct {
	max      int
	blockDur time.Duration
	// per address
	count      map[string]int
	aliveUntil map[string]time.Duration // virtual time
	blocked    map[string]bool
}

func vfNewLimModel(max int, blockDur time.Duration) (m *vfLimModel) {
	return &vfLimModel{max: max, blockDur: blockDur, count: map[string]int{}, aliveUntil: map[string]time.Duration{}, blocked: map[string]bool{}}
}

// state returns whether addr is blocked at virtual time now.  Boundaries are
// never hit: avoid keeps every clock advance away from them.
func (m *vfLimModel) state(addr string, now time.Duration) (blocked, ambiguous bool) {
	until, ok := m.aliveUntil[addr]
	if !ok {
		return false, false
	}
	if now > until {
		delete(m.aliveUntil, addr)
		delete(m.count, addr)
		delete(m.blocked, addr)

		return false, false
	}

	return m.blocked[addr], false
}

// avoid lengthens the advance d until now+d is at least slack away from the end
// of every record (the statement does not decide the boundary instant itself,
// and in the HTTP test real time passes too).
func (m *vfLimModel) avoid(now, d, slack time.Duration) (out time.Duration) {
	for again := true; again; {
		again = false
		for _, until := range m.aliveUntil {
			if diff := until - (now + d); diff > -slack && diff < slack {
				d += 2 * slack
				again = true
			}
		}
	}

	return d
}

// fail registers a failed, evaluated attempt.
func (m *vfLimModel) fail(addr string, now time.Duration) {
	if _, ok := m.aliveUntil[addr]; !ok {
		m.aliveUntil[addr] = now + time.Minute
		m.count[addr] = 0
	}
	m.count[addr]++
	if m.count[addr] >= m.max {
		m.blocked[addr] = true
		m.aliveUntil[addr] = now + m.blockDur
	}
}

func (m *vfLimModel) success(addr string) {
	delete(m.aliveUntil, addr)
	delete(m.count, addr)
	delete(m.blocked, addr)
}

// vfShiftLimiter advances the limiter's clock by d: every stored instant moves
// back by d (DESIGN 3.4).
func vfShiftLimiter(rl *authRateLimiter, d time.Duration) {
	rl.failedAuthsLock.Lock()
	defer rl.failedAuthsLock.Unlock()

	for k, v := range rl.failedAuths {
		v.until = v.until.Add(-d)
		rl.failedAuths[k] = v
	}
}

// vfC12Env is a per-case authentication environment behind the real mux.
type vfC12Env struct {
	dir   string
	file  string
	users []webUser
	ttl   uint32
	rl    *authRateLimiter
}

func vfNewC12Env(ttl uint32, rl *authRateLimiter) (e *vfC12Env, err error) {
	e = &vfC12Env{users: vfC12Users(), ttl: ttl, rl: rl}
	e.dir, err = os.MkdirTemp("", "vfc12")
	if err != nil {
		return nil, err
	}
	e.file = filepath.Join(e.dir, "sessions.db")
	if !e.open() {
		return nil, fmt.Errorf("InitAuth failed")
	}

	return e, nil
}

func (e *vfC12Env) open() (ok bool) {
	// the default configuration trusts loopback proxies
	trusted := netutil.SliceSubnetSet{netip.MustParsePrefix("127.0.0.0/8"), netip.MustParsePrefix("::1/128")}
	a := InitAuth(e.file, e.users, e.ttl, e.rl, trusted)
	if a == nil {
		return false
	}
	globalContext.auth = a

	return true
}

func (e *vfC12Env) close() {
	globalContext.auth.Close()
	_ = os.RemoveAll(e.dir)
}

// vfLogin posts to the real login handler from the given remote host:port.
func vfLogin(h http.Handler, remote, user, pass string, hdr ...string) (rec *httptest.ResponseRecorder) {
	body := fmt.Sprintf(`{"name":%q,"password":%q}`, user, pass)
	r := httptest.NewRequest(http.MethodPost, "http://agh.vf.test/control/login", strings.NewReader(body))
	r.Header.Set("Content-Type", "application/json")
	for i := 0; i+1 < len(hdr); i += 2 {
		r.Header.Set(hdr[i], hdr[i+1])
	}
	r.RemoteAddr = remote
	rec = httptest.NewRecorder()
	h.ServeHTTP(rec, r)

	return rec
}

func vfSessionCookie(rec *httptest.ResponseRecorder) (val string) {
	for _, c := range rec.Result().Cookies() {
		if c.Name == sessionCookieName {
			return c.Value
		}
	}

	return ""
}

func vfCountSessions() (n int) {
	globalContext.auth.lock.Lock()
	defer globalContext.auth.lock.Unlock()

	return len(globalContext.auth.sessions)
}

var vfC12Advances = []time.Duration{
	time.Millisecond, 10 * time.Second, 55 * time.Second, 65 * time.Second, 5 * time.Minute, 20 * time.Minute, 2 * time.Hour,
}

// TestVFC12RateLimitHTTP drives the throttle through POST /control/login.
func TestVFC12RateLimitHTTP(t *testing.T) {
	vfkit.Begin(t)
	a := vfAssemble()
	if a.err != nil {
		t.Fatalf("assembly failed: %v", a.err)
	}
	saved := globalContext.auth
	defer func() { globalContext.auth = saved }()
	h := vfHandler()

	rapid.Check(t, func(t *rapid.T) {
		max := rapid.IntRange(1, 5).Draw(t, "max_attempts")
		blockDur := rapid.SampledFrom([]time.Duration{10 * time.Second, 30 * time.Second, 2 * time.Minute, 15 * time.Minute, time.Hour}).Draw(t, "block_dur")
		rl := newAuthRateLimiter(blockDur, uint(max))
		env, err := vfNewC12Env(3600, rl)
		if err != nil {
			t.Fatalf("VERIF-INCONCLUSIVE env: %v", err)
		}
		defer env.close()

		m := vfNewLimModel(max, blockDur)
		var now time.Duration
		remotes := []string{"192.0.2.1:40000", "192.0.2.2:40001", "[2001:db8::3]:40002"}
		reachedLimit, correctWhileBlocked, crossedBlock, clearedBySuccess := false, false, false, false
		var trace []string
		floodSeq, bigFloods := 0, 0

		t.Repeat(map[string]func(*rapid.T){
			"attempt": func(t *rapid.T) {
				remote := rapid.SampledFrom(remotes).Draw(t, "remote")
				correct := rapid.IntRange(0, 3).Draw(t, "correct") == 0
				user, pass := vfAdminUser, "wrong"
				if correct {
					pass = vfAdminPass
				} else if rapid.IntRange(0, 3).Draw(t, "unknown_user") == 0 {
					user = "nobody"
				}
				// headers a client can forge; throttling is per TCP peer
				// address whatever they say
				var hdr []string
				switch rapid.IntRange(0, 5).Draw(t, "proxy_header") {
				case 0:
					hdr = []string{"X-Real-IP", rapid.SampledFrom([]string{"127.0.0.1", "203.0.113.9", "::1"}).Draw(t, "hdr_value")}
				case 1:
					hdr = []string{"X-Forwarded-For", rapid.SampledFrom([]string{"127.0.0.1, 10.0.0.1", "127.0.0.2", "198.51.100.1"}).Draw(t, "hdr_value")}
				case 2:
					hdr = []string{rapid.SampledFrom([]string{"CF-Connecting-IP", "True-Client-IP"}).Draw(t, "hdr_name"), "127.0.0.1"}
				}
				if hdr != nil {
					vfC12.Class("limiter:forged_proxy_header")
				}
				blocked, amb := m.state(remote, now)
				hadFailures := m.count[remote] > 0
				before := vfCountSessions()
				rec := vfLogin(h, remote, user, pass, hdr...)
				after := vfCountSessions()
				trace = append(trace, fmt.Sprintf("t=%s %s correct=%t -> %d", now, remote, correct, rec.Code))
				vfC12.Eval()

				if amb {
					vfC12.Class("limiter:ambiguous_boundary")
					// resynchronise the model with what the server decided
					switch rec.Code {
					case http.StatusTooManyRequests:
					case http.StatusOK:
						m.success(remote)
					default:
						delete(m.aliveUntil, remote)
						delete(m.count, remote)
						delete(m.blocked, remote)
						m.fail(remote, now)
					}

					return
				}

				fail := func(format string, args ...any) {
					t.Fatalf("%s\nmax=%d block=%s trace:\n%s", fmt.Sprintf(format, args...), max, blockDur, strings.Join(trace, "\n"))
				}

				if blocked {
					vfC12.Class("limiter:attempt_while_blocked")
					if correct {
						correctWhileBlocked = true
						vfC12.Class("limiter:correct_password_while_blocked")
					}
					if rec.Code != http.StatusTooManyRequests {
						fail("attempt from a blocked address got %d, want 429", rec.Code)
					}
					ra, perr := strconv.Atoi(rec.Header().Get("Retry-After"))
					if perr != nil || ra < 0 || time.Duration(ra)*time.Second > blockDur {
						fail("blocked attempt: bad Retry-After %q", rec.Header().Get("Retry-After"))
					}
					if after != before || vfSessionCookie(rec) != "" {
						fail("a session was created for a blocked address")
					}

					return
				}

				if correct {
					if rec.Code != http.StatusOK || vfSessionCookie(rec) == "" || after != before+1 {
						fail("correct login from a non-blocked address: status %d, sessions %d -> %d", rec.Code, before, after)
					}
					if hadFailures {
						clearedBySuccess = true
						vfC12.Class("limiter:success_clears_count")
					}
					m.success(remote)

					return
				}

				if rec.Code != http.StatusForbidden || after != before || vfSessionCookie(rec) != "" {
					fail("wrong login from a non-blocked address: status %d, sessions %d -> %d", rec.Code, before, after)
				}
				m.fail(remote, now)
				if m.blocked[remote] {
					reachedLimit = true
					vfC12.Class("limiter:limit_reached")
				}
			},
			"basic_attempt": func(t *rapid.T) {
				// user name and password presented with a request itself (HTTP
				// Basic) are a login attempt like one through the form: the
				// same count, the same block
				remote := rapid.SampledFrom(remotes).Draw(t, "remote")
				correct := rapid.IntRange(0, 2).Draw(t, "correct") == 0
				user, pass := vfAdminUser, "wrong"
				if correct {
					pass = vfAdminPass
				} else if rapid.IntRange(0, 3).Draw(t, "unknown_user") == 0 {
					user = "nobody"
				}
				blocked, amb := m.state(remote, now)
				if amb {
					// the status of a refused Basic request does not tell a
					// blocked address from a wrong password: no way to
					// resynchronise the model at the boundary
					t.Skip("boundary instant")
				}
				hadFailures := m.count[remote] > 0
				before := vfCountSessions()
				r := httptest.NewRequest(http.MethodGet, "http://agh.vf.test/control/status", nil)
				r.SetBasicAuth(user, pass)
				r.RemoteAddr = remote
				rec := httptest.NewRecorder()
				h.ServeHTTP(rec, r)
				trace = append(trace, fmt.Sprintf("t=%s %s basic correct=%t -> %d", now, remote, correct, rec.Code))
				vfC12.Eval()
				fail := func(format string, args ...any) {
					t.Fatalf("%s\nmax=%d block=%s trace:\n%s", fmt.Sprintf(format, args...), max, blockDur, strings.Join(trace, "\n"))
				}
				if vfCountSessions() != before {
					fail("a Basic request changed the number of sessions")
				}
				switch {
				case blocked:
					vfC12.Class("limiter:basic_while_blocked")
					if correct {
						correctWhileBlocked = true
						vfC12.Class("limiter:basic_correct_password_while_blocked")
					}
					if rec.Code == http.StatusOK {
						fail("a request with Basic credentials (correct=%t) from a blocked address was served", correct)
					}
				case correct:
					if rec.Code != http.StatusOK {
						fail("correct Basic credentials from a non-blocked address: status %d", rec.Code)
					}
					if hadFailures {
						clearedBySuccess = true
						vfC12.Class("limiter:basic_success_clears_count")
					}
					m.success(remote)
				default:
					if rec.Code == http.StatusOK {
						fail("wrong Basic credentials were accepted")
					}
					m.fail(remote, now)
					if m.blocked[remote] {
						reachedLimit = true
						vfC12.Class("limiter:limit_reached_by_basic")
					}
				}
			},
			"basic_burst": func(t *rapid.T) {
				// many guesses at once from one (other) address: however they
				// overlap, no more passwords are evaluated than the limit
				// allows, and the address is blocked afterwards
				k := rapid.IntRange(max+1, max+12).Draw(t, "parallel_guesses")
				floodSeq++
				ip := fmt.Sprintf("192.0.2.%d", 100+floodSeq%100)
				remote := ip + ":6000"
				rl.remove(ip)
				var wg sync.WaitGroup
				for i := 0; i < k; i++ {
					wg.Add(1)
					go func() {
						defer wg.Done()
						r := httptest.NewRequest(http.MethodGet, "http://agh.vf.test/control/status", nil)
						r.SetBasicAuth(vfAdminUser, "wrong")
						r.RemoteAddr = remote
						h.ServeHTTP(httptest.NewRecorder(), r)
					}()
				}
				wg.Wait()
				vfC12.Eval()
				vfC12.Class("limiter:basic_burst")
				rl.failedAuthsLock.Lock()
				evaluated := rl.failedAuths[ip].num
				rl.failedAuthsLock.Unlock()
				trace = append(trace, fmt.Sprintf("t=%s %s %d wrong basic attempts at once -> %d evaluated", now, remote, k, evaluated))
				if evaluated > uint(max) {
					t.Fatalf("%d wrong Basic attempts arriving at once from %s: %d passwords were evaluated, the limit is %d\nmax=%d block=%s trace:\n%s",
						k, remote, evaluated, max, max, blockDur, strings.Join(trace, "\n"))
				}
				r := httptest.NewRequest(http.MethodGet, "http://agh.vf.test/control/status", nil)
				r.SetBasicAuth(vfAdminUser, vfAdminPass)
				r.RemoteAddr = remote
				rec := httptest.NewRecorder()
				h.ServeHTTP(rec, r)
				if rec.Code == http.StatusOK {
					t.Fatalf("after %d wrong Basic attempts at once (limit %d) the correct password from %s was served", k, max, remote)
				}
			},
			"many_other_addresses_fail": func(t *rapid.T) {
				// a burst of wrong logins from many other addresses (a scan, a
				// botnet): the three observed addresses keep their state
				n := rapid.SampledFrom([]int{3, 40, 1100}).Draw(t, "other_addresses")
				if n > 100 {
					if bigFloods > 0 {
						t.Skip("one large burst per history")
					}
					bigFloods++
				}
				for i := 0; i < n; i++ {
					floodSeq++
					remote := fmt.Sprintf("10.%d.%d.%d:5000", (floodSeq>>16)&0xff, (floodSeq>>8)&0xff, floodSeq&0xff)
					if i%3 == 0 {
						remote = fmt.Sprintf("[2001:db8:f00d::%x]:5000", floodSeq)
					}
					if rec := vfLogin(h, remote, "nobody", "x"); rec.Code != http.StatusForbidden && rec.Code != http.StatusTooManyRequests {
						t.Fatalf("wrong login from %s: status %d", remote, rec.Code)
					}
				}
				trace = append(trace, fmt.Sprintf("t=%s %d other addresses fail once", now, n))
				vfC12.Class(fmt.Sprintf("limiter:flood=%d", n))
			},
			"advance": func(t *rapid.T) {
				d := rapid.SampledFrom(append(append([]time.Duration{}, vfC12Advances...), blockDur-5*time.Second, blockDur+5*time.Second)).Draw(t, "advance")
				wasBlocked := false
				for _, r := range remotes {
					if b, _ := m.state(r, now); b {
						wasBlocked = true
					}
				}
				d = m.avoid(now, d, 3*time.Second)
				now += d
				vfShiftLimiter(rl, d)
				trace = append(trace, fmt.Sprintf("advance %s", d))
				if wasBlocked {
					stillBlocked := false
					for _, r := range remotes {
						if b, _ := m.state(r, now); b {
							stillBlocked = true
						}
					}
					if !stillBlocked {
						crossedBlock = true
						vfC12.Class("limiter:block_elapsed")
					}
				}
			},
			"": func(t *rapid.T) {},
		})

		if reachedLimit && (correctWhileBlocked || crossedBlock) {
			vfC12.Nontrivial(fmt.Sprintf("http|%d|%s|%s", max, blockDur, strings.Join(trace, ";")))
			vfC12.Class("limiter:nontrivial_history")
		}
		_ = clearedBySuccess
		if vfC12.WantSample("limiter_http") {
			vfC12.Sample("limiter_http", map[string]any{"max_attempts": max, "block": blockDur.String(), "history": trace})
		}
	})
}

// TestVFC12RateLimitModel runs long histories against the limiter's own
// methods with an explicit clock (no HTTP, no bcrypt), same model.
func TestVFC12RateLimitModel(t *testing.T) {
	vfkit.Begin(t)
	rapid.Check(t, func(t *rapid.T) {
		max := rapid.IntRange(1, 6).Draw(t, "max_attempts")
		blockDur := time.Duration(rapid.IntRange(1, 7200).Draw(t, "block_s")) * time.Second
		rl := newAuthRateLimiter(blockDur, uint(max))
		m := vfNewLimModel(max, blockDur)
		base := time.Date(2030, 1, 1, 0, 0, 0, 0, time.UTC)
		var now time.Duration
		addrs := []string{"a", "b", "c"}
		reached, crossed := false, false
		var trace []string

		check := func(addr string) (left time.Duration) {
			rl.failedAuthsLock.Lock()
			defer rl.failedAuthsLock.Unlock()
			rl.cleanupLocked(base.Add(now))

			return rl.checkLocked(addr, base.Add(now))
		}

		t.Repeat(map[string]func(*rapid.T){
			"attempt": func(t *rapid.T) {
				addr := rapid.SampledFrom(addrs).Draw(t, "addr")
				correct := rapid.IntRange(0, 4).Draw(t, "correct") == 0
				blocked, amb := m.state(addr, now)
				left := check(addr)
				vfC12.Eval()
				trace = append(trace, fmt.Sprintf("t=%s %s correct=%t left=%s", now, addr, correct, left))
				if amb {
					// exactly at (or within slack of) a boundary: follow the code
					if left > 0 {
						return
					}
					delete(m.aliveUntil, addr)
					delete(m.count, addr)
					delete(m.blocked, addr)
				} else if blocked != (left > 0) {
					t.Fatalf("address %s at t=%s: limiter says left=%s, model says blocked=%t (max=%d block=%s)\n%s",
						addr, now, left, blocked, max, blockDur, strings.Join(trace, "\n"))
				}
				if left > 0 {
					if left > blockDur {
						t.Fatalf("time left %s exceeds the block duration %s", left, blockDur)
					}

					return
				}
				// as newCookie does after the check
				if correct {
					rl.remove(addr)
					m.success(addr)
				} else {
					rl.failedAuthsLock.Lock()
					rl.incLocked(addr, base.Add(now))
					rl.failedAuthsLock.Unlock()
					m.fail(addr, now)
					if m.blocked[addr] {
						reached = true
					}
				}
			},
			"advance": func(t *rapid.T) {
				var d time.Duration
				switch rapid.IntRange(0, 3).Draw(t, "advance_kind") {
				case 0:
					d = time.Duration(rapid.IntRange(1, 58000).Draw(t, "ms")) * time.Millisecond
				case 1:
					d = rapid.SampledFrom([]time.Duration{57 * time.Second, 63 * time.Second, blockDur - 3*time.Second, blockDur + 3*time.Second}).Draw(t, "edge")
					if d <= 0 {
						d = time.Second
					}
				default:
					d = time.Duration(rapid.IntRange(1, 10000).Draw(t, "s")) * time.Second
				}
				d = m.avoid(now, d, time.Millisecond)
				for _, a := range addrs {
					if m.blocked[a] && now+d > m.aliveUntil[a] {
						crossed = true
					}
				}
				now += d
				trace = append(trace, "advance "+d.String())
			},
			"": func(t *rapid.T) {},
		})
		if vfC12.WantSample("limiter_model") {
			vfC12.Sample("limiter_model", map[string]any{"max_attempts": max, "block": blockDur.String(), "history": trace})
		}
		if reached {
			vfC12.Class("model:limit_reached")
			if crossed {
				vfC12.Class("model:block_elapsed")
				vfC12.Nontrivial(fmt.Sprintf("model|%d|%s|%s", max, blockDur, strings.Join(trace, ";")))
			}
		}
	})
}

// vfShiftSessionsStored moves every session's expiry back by d seconds, in
// memory and in the database file (what a clock advance of d would look like).
func vfShiftSessionsStored(d uint32) {
	a := globalContext.auth
	type kv struct {
		k string
		s *session
	}
	var all []kv
	a.lock.Lock()
	for k, s := range a.sessions {
		if s.expire > d {
			s.expire -= d
		} else {
			s.expire = 1
		}
		all = append(all, kv{k, s})
	}
	a.lock.Unlock()
	for _, e := range all {
		key := make([]byte, len(e.k)/2)
		_, _ = fmt.Sscanf(e.k, "%x", &key)
		a.storeSession(key, e.s)
	}
}

// TestVFC12Sessions: a token authenticates only between its creation and its
// expiry or logout, also across restarts.
func TestVFC12Sessions(t *testing.T) {
	vfkit.Begin(t)
	a := vfAssemble()
	if a.err != nil {
		t.Fatalf("assembly failed: %v", a.err)
	}
	saved := globalContext.auth
	defer func() { globalContext.auth = saved }()
	h := vfHandler()

	type tok struct {
		val        string
		created    int64 // virtual seconds
		lastAccept int64
		loggedOut  bool
		// eitherWay: a logout request carried this token next to another live
		// one, and it is not known which of the two the server ended.
		eitherWay bool
	}

	rapid.Check(t, func(t *rapid.T) {
		ttl := rapid.SampledFrom([]uint32{60, 3600, 86400, 30 * 86400}).Draw(t, "session_ttl")
		env, err := vfNewC12Env(ttl, nil)
		if err != nil {
			t.Fatalf("VERIF-INCONCLUSIVE env: %v", err)
		}
		defer env.close()

		var now int64
		var toks []*tok
		toks = append(toks, &tok{val: strings.Repeat("cd", 16), created: -1, loggedOut: true}) // never issued
		crossedExpiry, restarted, usedAfterLogout := false, false, false
		var trace []string

		use := func(tk *tok) (ok bool) {
			r := httptest.NewRequest(http.MethodGet, "http://agh.vf.test/control/status", nil)
			r.AddCookie(&http.Cookie{Name: sessionCookieName, Value: tk.val})
			r.RemoteAddr = "192.0.2.9:1"
			rec := httptest.NewRecorder()
			h.ServeHTTP(rec, r)
			switch rec.Code {
			case http.StatusOK:
				return true
			case http.StatusForbidden:
				return false
			default:
				t.Fatalf("GET /control/status with a cookie: unexpected status %d", rec.Code)

				return false
			}
		}

		t.Repeat(map[string]func(*rapid.T){
			"login": func(t *rapid.T) {
				if len(toks) > 6 {
					t.Skip("enough tokens")
				}
				rec := vfLogin(h, "192.0.2.9:1", vfAdminUser, vfAdminPass)
				v := vfSessionCookie(rec)
				if rec.Code != http.StatusOK || v == "" {
					t.Fatalf("login failed: %d", rec.Code)
				}
				toks = append(toks, &tok{val: v, created: now, lastAccept: now})
				trace = append(trace, fmt.Sprintf("t=%d login", now))
			},
			"use": func(t *rapid.T) {
				tk := rapid.SampledFrom(toks).Draw(t, "token")
				got := use(tk)
				vfC12.Eval()
				trace = append(trace, fmt.Sprintf("t=%d use(created=%d,out=%t)=%t", now, tk.created, tk.loggedOut, got))
				const slack = 3
				switch {
				case tk.eitherWay:
					// settled by what the server says now
					tk.eitherWay = false
					if !got {
						tk.loggedOut = true
					}
				case tk.loggedOut:
					if tk.created >= 0 {
						usedAfterLogout = true
					}
					if got {
						t.Fatalf("a logged-out or never-issued token authenticated\nttl=%d\n%s", ttl, strings.Join(trace, "\n"))
					}
				case now < tk.created+int64(ttl)-slack:
					if !got {
						t.Fatalf("a live token (age %ds, ttl %ds) was refused\n%s", now-tk.created, ttl, strings.Join(trace, "\n"))
					}
				case now >= tk.lastAccept+int64(ttl)+slack:
					crossedExpiry = true
					vfC12.Class("session:used_after_expiry")
					if got {
						t.Fatalf("a token unused for %ds (ttl %ds) still authenticated\n%s", now-tk.lastAccept, ttl, strings.Join(trace, "\n"))
					}
				default:
					vfC12.Class("session:envelope_either")
				}
				if got {
					tk.lastAccept = now
				} else if !tk.loggedOut && now >= tk.created+int64(ttl)-slack {
					// refused once: expired tokens are deleted, it stays dead
					tk.loggedOut = true
				}
			},
			"logout": func(t *rapid.T) {
				tk := rapid.SampledFrom(toks).Draw(t, "token")
				r := httptest.NewRequest(http.MethodGet, "http://agh.vf.test/control/logout", nil)
				r.AddCookie(&http.Cookie{Name: sessionCookieName, Value: tk.val})
				rec := httptest.NewRecorder()
				h.ServeHTTP(rec, r)
				// logout itself requires a valid session; an invalid one gets 403
				if rec.Code == http.StatusFound {
					tk.loggedOut = true
				}
				trace = append(trace, fmt.Sprintf("t=%d logout(created=%d) -> %d", now, tk.created, rec.Code))
			},
			"logout_with_two_cookies": func(t *rapid.T) {
				// a browser that still has an older cookie of the same name
				// (another path, an earlier login) sends both.  Whichever of
				// them the server goes by: if it says "logged out", no token
				// of that request may authenticate afterwards.
				tk := rapid.SampledFrom(toks).Draw(t, "token")
				other := rapid.SampledFrom([]string{"0123456789abcdef0123456789abcdef", "garbage", ""}).Draw(t, "other_cookie")
				var otherTok *tok
				if rapid.Bool().Draw(t, "other_is_a_token") && len(toks) > 1 {
					otherTok = rapid.SampledFrom(toks).Draw(t, "other_token")
					other = otherTok.val
				}
				liveFirst := rapid.Bool().Draw(t, "live_first")
				r := httptest.NewRequest(http.MethodGet, "http://agh.vf.test/control/logout", nil)
				if liveFirst {
					r.AddCookie(&http.Cookie{Name: sessionCookieName, Value: tk.val})
					r.AddCookie(&http.Cookie{Name: sessionCookieName, Value: other})
				} else {
					r.AddCookie(&http.Cookie{Name: sessionCookieName, Value: other})
					r.AddCookie(&http.Cookie{Name: sessionCookieName, Value: tk.val})
				}
				rec := httptest.NewRecorder()
				h.ServeHTTP(rec, r)
				if rec.Code == http.StatusFound && strings.Contains(rec.Header().Get("Location"), "login") {
					// a logout is only served to an authenticated request; if
					// the other cookie cannot have been what authenticated it
					// (garbage, or a token already logged out), this one was
					switch {
					case otherTok == nil || otherTok.loggedOut:
						tk.loggedOut = true
						vfC12.Class("session:logout_with_two_cookies_served")
					case tk.loggedOut:
						otherTok.loggedOut = true
						vfC12.Class("session:logout_with_two_cookies_served")
					default:
						tk.eitherWay, otherTok.eitherWay = true, true
						vfC12.Class("session:logout_with_two_live_cookies")
					}
				}
				trace = append(trace, fmt.Sprintf("t=%d logout with two cookies (created=%d, live first=%t) -> %d", now, tk.created, liveFirst, rec.Code))
			},
			"advance": func(t *rapid.T) {
				d := rapid.SampledFrom([]int64{1, 30, 50, 70, 1800, 3500, 3700, 43200, 86000, 87000, 5 * 86400, 29 * 86400, 31 * 86400}).Draw(t, "advance_s")
				now += d
				vfShiftSessionsStored(uint32(d))
				trace = append(trace, fmt.Sprintf("advance %ds", d))
			},
			"restart": func(t *rapid.T) {
				globalContext.auth.Close()
				if !env.open() {
					t.Fatalf("VERIF-INCONCLUSIVE reopen failed")
				}
				restarted = true
				vfC12.Class("session:restart")
				trace = append(trace, "restart")
			},
			"": func(t *rapid.T) {},
		})

		if crossedExpiry || (restarted && usedAfterLogout) {
			vfC12.Nontrivial(fmt.Sprintf("sess|%d|%s", ttl, strings.Join(trace, ";")))
			vfC12.Class("session:nontrivial_history")
		}
		if vfC12.WantSample("session") {
			vfC12.Sample("session", map[string]any{"ttl_s": ttl, "history": trace})
		}
	})
}

// TestVFC12LogoutRace: a request with the cookie racing with the logout of
// that cookie must not bring the session back: after the logout has returned
// and the process restarted the token does not authenticate.  The session's
// stored expiry is a day stale, so the racing request takes the once-a-day
// refresh path that writes the session to the file.
func TestVFC12LogoutRace(t *testing.T) {
	vfkit.Begin(t)
	a := vfAssemble()
	if a.err != nil {
		t.Fatalf("assembly failed: %v", a.err)
	}
	saved := globalContext.auth
	defer func() { globalContext.auth = saved }()
	h := vfHandler()

	rapid.Check(t, func(t *rapid.T) {
		env, err := vfNewC12Env(30*86400, nil)
		if err != nil {
			t.Fatalf("VERIF-INCONCLUSIVE env: %v", err)
		}
		defer env.close()

		n := rapid.IntRange(4, 12).Draw(t, "n_sessions")
		users := rapid.IntRange(1, 3).Draw(t, "racing_requests")
		// direct: the logout handler is invoked without the authentication
		// wrapper in front of it (whose own session check would perform the
		// daily refresh before the racing request can)
		direct := rapid.Bool().Draw(t, "logout_handler_direct")
		var cookies []string
		for i := 0; i < n; i++ {
			rec := vfLogin(h, "192.0.2.9:1", vfAdminUser, vfAdminPass)
			v := vfSessionCookie(rec)
			if v == "" {
				t.Fatalf("VERIF-INCONCLUSIVE login failed: %d", rec.Code)
			}
			cookies = append(cookies, v)
		}
		// make every stored expiry fall on another day than now+TTL
		vfShiftSessionsStored(86400 + 3600)

		for _, c := range cookies {
			start := make(chan struct{})
			done := make(chan struct{}, users+1)
			for u := 0; u < users; u++ {
				go func() {
					<-start
					r := httptest.NewRequest(http.MethodGet, "http://agh.vf.test/control/status", nil)
					r.AddCookie(&http.Cookie{Name: sessionCookieName, Value: c})
					h.ServeHTTP(httptest.NewRecorder(), r)
					done <- struct{}{}
				}()
			}
			go func() {
				<-start
				r := httptest.NewRequest(http.MethodGet, "http://agh.vf.test/control/logout", nil)
				r.AddCookie(&http.Cookie{Name: sessionCookieName, Value: c})
				if direct {
					handleLogout(httptest.NewRecorder(), r)
				} else {
					h.ServeHTTP(httptest.NewRecorder(), r)
				}
				done <- struct{}{}
			}()
			close(start)
			for u := 0; u < users+1; u++ {
				<-done
			}
			// the logout may have lost the race for authentication (403): then
			// log out again, sequentially, as a user would
			r := httptest.NewRequest(http.MethodGet, "http://agh.vf.test/control/logout", nil)
			r.AddCookie(&http.Cookie{Name: sessionCookieName, Value: c})
			h.ServeHTTP(httptest.NewRecorder(), r)
		}

		globalContext.auth.Close()
		if !env.open() {
			t.Fatalf("VERIF-INCONCLUSIVE reopen failed")
		}
		for i, c := range cookies {
			r := httptest.NewRequest(http.MethodGet, "http://agh.vf.test/control/status", nil)
			r.AddCookie(&http.Cookie{Name: sessionCookieName, Value: c})
			rec := httptest.NewRecorder()
			h.ServeHTTP(rec, r)
			vfC12.Eval()
			vfC12.Class(fmt.Sprintf("session:logout_race_checked/direct=%t", direct))
			vfC12.Nontrivial(fmt.Sprintf("race|%d|%d|%d", n, users, i))
			if rec.Code == http.StatusOK {
				t.Fatalf("session %d of %d authenticates after its logout and a restart (a concurrent request brought it back)", i, n)
			}
		}
	})
}
