//go:build verif

package home

// C13 at the place where it happens: the start-up path (parseConfig) reads the
// file, upgrades it, writes it back and loads it.  The start that performs the
// upgrade must end with the same running configuration as the next start, which
// finds the file already current (a differential between two runs of the real
// function); the file is stamped with the current version, a failing start
// leaves the file as it was, and a second start changes nothing.
// Inputs: the repository's own historical configurations (one per schema
// version) with generated deletions of sections and keys.

import (
	"bytes"
	"fmt"
	"io"
	"os"
	"path/filepath"
	"sort"
	"strings"
	"testing"

	"github.com/AdguardTeam/AdGuardHome/internal/configmigrate"
	"github.com/AdguardTeam/AdGuardHome/internal/vfkit"
	"github.com/AdguardTeam/golibs/log"
	"gopkg.in/yaml.v3"
	"pgregory.net/rapid"
)

var vfC13H = vfkit.For("C13")

func TestVFC13StartupUpgrade(t *testing.T) {
	vfkit.Begin(t)
	log.SetOutput(io.Discard)

	repo := os.Getenv("VERIF_REPO")
	if repo == "" {
		repo = "/repo"
	}
	golden := filepath.Join(repo, "internal", "configmigrate", "testdata", "TestMigrateConfig_Migrate")
	ents, err := os.ReadDir(golden)
	if err != nil {
		t.Fatalf("VERIF-INCONCLUSIVE reading %s: %v", golden, err)
	}
	inputs := map[string][]byte{}
	var names []string
	for _, e := range ents {
		b, rerr := os.ReadFile(filepath.Join(golden, e.Name(), "input.yml"))
		if rerr == nil {
			inputs[e.Name()] = b
			names = append(names, e.Name())
		}
	}
	sort.Strings(names)
	if len(names) < 20 {
		t.Fatalf("VERIF-INCONCLUSIVE only %d historical configurations found under %s", len(names), golden)
	}

	defaults, err := yaml.Marshal(config)
	if err != nil {
		t.Fatalf("VERIF-INCONCLUSIVE marshalling the default configuration: %v", err)
	}
	prevConfig, prevDir := config, globalContext.workDir
	defer func() { config, globalContext.workDir = prevConfig, prevDir }()
	fresh := func() {
		c := &configuration{}
		if uerr := yaml.Unmarshal(defaults, c); uerr != nil {
			t.Fatalf("VERIF-INCONCLUSIVE re-reading the default configuration: %v", uerr)
		}
		config = c
	}

	rapid.Check(t, func(t *rapid.T) {
		name := rapid.SampledFrom(names).Draw(t, "historical_config")
		body := inputs[name]

		// generated deletions: a top-level section and/or a key one level down
		var doc map[string]any
		if yerr := yaml.Unmarshal(body, &doc); yerr != nil {
			t.Fatalf("VERIF-INCONCLUSIVE %s: %v", name, yerr)
		}
		var keys []string
		for k := range doc {
			if k != "schema_version" {
				keys = append(keys, k)
			}
		}
		sort.Strings(keys)
		mutation := "none"
		nulled := false
		if len(keys) > 0 && rapid.IntRange(0, 2).Draw(t, "mutate") > 0 {
			k := rapid.SampledFrom(keys).Draw(t, "section")
			if sub, ok := doc[k].(map[string]any); ok && len(sub) > 0 && rapid.Bool().Draw(t, "one_level_down") {
				var subKeys []string
				for sk := range sub {
					subKeys = append(subKeys, sk)
				}
				sort.Strings(subKeys)
				sk := rapid.SampledFrom(subKeys).Draw(t, "key")
				if _, isSection := sub[sk].(map[string]any); !isSection && rapid.Bool().Draw(t, "null_instead_of_absent") {
					// an explicit null: "use the default", for the typed
					// loader of every schema the same as leaving the key out
					sub[sk] = nil
					mutation = "null " + k + "." + sk
					nulled = true
				} else {
					delete(sub, sk)
					mutation = "drop " + k + "." + sk
				}
			} else {
				delete(doc, k)
				mutation = "drop " + k
			}
			nb, merr := yaml.Marshal(doc)
			if merr != nil {
				t.Fatalf("VERIF-INCONCLUSIVE re-encoding: %v", merr)
			}
			body = nb
		}

		dir, derr := os.MkdirTemp("", "vfc13start")
		if derr != nil {
			t.Fatalf("VERIF-INCONCLUSIVE mkdir: %v", derr)
		}
		defer os.RemoveAll(dir)
		globalContext.workDir = dir
		initConfigFilename(options{})
		confPath := configFilePath()
		if werr := os.WriteFile(confPath, body, 0o644); werr != nil {
			t.Fatalf("VERIF-INCONCLUSIVE write: %v", werr)
		}

		start := func() (snapshot []byte, serr error) {
			fresh()
			serr = parseConfig()
			if serr != nil {
				return nil, serr
			}
			config.fileData = nil
			snapshot, merr := yaml.Marshal(config)
			if merr != nil {
				t.Fatalf("VERIF-INCONCLUSIVE marshalling the running configuration: %v", merr)
			}

			return snapshot, nil
		}

		first, err1 := start()
		afterFirst, rerr := os.ReadFile(confPath)
		if rerr != nil {
			t.Fatalf("the configuration file is gone after the start: %v", rerr)
		}
		vfC13H.Eval()
		vfC13H.Class("startup:from:" + name)
		vfC13H.Class("startup:mutation:" + map[bool]string{true: "none", false: "deletion"}[mutation == "none"])
		vfC13H.Nontrivial(fmt.Sprintf("startup|%s|%s", name, mutation))
		if vfC13H.WantSample("startup") {
			vfC13H.Sample("startup", map[string]any{"historical_config": name, "mutation": mutation, "first_start_error": fmt.Sprint(err1)})
		}
		desc := fmt.Sprintf("start-up with the %s configuration (%s)", name, mutation)

		if err1 != nil && nulled && !bytes.Equal(afterFirst, body) {
			// the same file with the key left out starts (or fails without
			// touching the file); with the explicit null the file was replaced
			// by one the program itself refuses
			t.Fatalf("%s: the upgrade replaced the file and the loader refuses the result: %v\nfile now:\n%s", desc, err1, vfC13Excerpt(afterFirst))
		}
		if err1 != nil {
			vfC13H.Class("startup:first_start_failed")
			if !bytes.Equal(afterFirst, body) {
				// the upgrade itself may have succeeded and only the loader
				// refused: then the file holds the upgraded document, which a
				// second upgrade must leave alone (checked below); anything
				// else is a changed file after a failure
				m := configmigrate.New(&configmigrate.Config{WorkingDir: dir, DataDir: filepath.Join(dir, "data")})
				if _, upgraded, merr := m.Migrate(afterFirst, configmigrate.LastSchemaVersion); merr != nil || upgraded {
					t.Fatalf("%s failed (%v) and left a file that is neither the old one nor a current one", desc, err1)
				}
			}

			return
		}

		var stamped struct {
			Version uint `yaml:"schema_version"`
		}
		if yerr := yaml.Unmarshal(afterFirst, &stamped); yerr != nil || stamped.Version != configmigrate.LastSchemaVersion {
			t.Fatalf("%s: the file is stamped %d afterwards (decode error %v), want %d", desc, stamped.Version, yerr, configmigrate.LastSchemaVersion)
		}
		if config.SchemaVersion != configmigrate.LastSchemaVersion {
			t.Fatalf("%s: the running configuration says schema_version %d, want %d", desc, config.SchemaVersion, configmigrate.LastSchemaVersion)
		}

		second, err2 := start()
		if err2 != nil {
			t.Fatalf("%s succeeded, the next start on the upgraded file fails: %v", desc, err2)
		}
		afterSecond, _ := os.ReadFile(confPath)
		if !bytes.Equal(afterFirst, afterSecond) {
			t.Fatalf("%s: the next start changed the already current file", desc)
		}
		if !bytes.Equal(first, second) {
			t.Fatalf("%s: the start that upgraded the file runs with another configuration than the next start on the upgraded file\nfirst:\n%s\nsecond:\n%s",
				desc, vfC13Diff(first, second), "")
		}
	})
}

// vfC13Excerpt shows the beginning of a document.
func vfC13Excerpt(b []byte) (s string) {
	if len(b) > 600 {
		b = b[:600]
	}

	return string(b)
}

// vfC13Diff shows the lines that differ between two YAML documents.
func vfC13Diff(a, b []byte) (s string) {
	al, bl := bytes.Split(a, []byte("\n")), bytes.Split(b, []byte("\n"))
	seen := map[string]int{}
	for _, l := range al {
		seen[string(l)]++
	}
	for _, l := range bl {
		seen[string(l)]--
	}
	n := 0
	for l, c := range seen {
		if c != 0 && n < 12 {
			s += fmt.Sprintf("  %+d %s\n", c, l)
			n++
		}
	}

	return s
}

// vfC13SigRetyped is the signature of the listed finding: the upgrade decodes
// the whole file without types and encodes it again, so a string setting whose
// plain spelling looks like a number, a date or null comes out as another
// string (007 -> "7", 2024-01-01 -> "2024-01-01T00:00:00Z", 1.10 -> "1.1").
const vfC13SigRetyped = "upgrade-retypes-plain-scalars-of-string-settings"

// vfC13Path addresses a scalar in a YAML node tree: mapping keys and sequence
// indices from the document's root mapping down.
type vfC13Path []string

// vfC13StringScalars collects the paths of all string-valued scalars.
func vfC13StringScalars(n *yaml.Node, at vfC13Path, out *[]vfC13Path) {
	switch n.Kind {
	case yaml.DocumentNode:
		for _, c := range n.Content {
			vfC13StringScalars(c, at, out)
		}
	case yaml.MappingNode:
		for i := 0; i+1 < len(n.Content); i += 2 {
			vfC13StringScalars(n.Content[i+1], append(append(vfC13Path{}, at...), n.Content[i].Value), out)
		}
	case yaml.SequenceNode:
		for i, c := range n.Content {
			vfC13StringScalars(c, append(append(vfC13Path{}, at...), fmt.Sprint(i)), out)
		}
	case yaml.ScalarNode:
		if n.ShortTag() == "!!str" && n.Value != "" {
			*out = append(*out, at)
		}
	}
}

// vfC13NodeAt finds the node a path leads to, or nil.
func vfC13NodeAt(n *yaml.Node, p vfC13Path) (found *yaml.Node) {
	if n.Kind == yaml.DocumentNode && len(n.Content) == 1 {
		n = n.Content[0]
	}
	for _, step := range p {
		switch n.Kind {
		case yaml.MappingNode:
			var next *yaml.Node
			for i := 0; i+1 < len(n.Content); i += 2 {
				if n.Content[i].Value == step {
					next = n.Content[i+1]
				}
			}
			if next == nil {
				return nil
			}
			n = next
		case yaml.SequenceNode:
			var idx int
			if _, err := fmt.Sscanf(step, "%d", &idx); err != nil || idx < 0 || idx >= len(n.Content) {
				return nil
			}
			n = n.Content[idx]
		default:
			return nil
		}
	}

	return n
}

// vfC13Respell makes the scalar a plain (unquoted) one with the given text.
func vfC13Respell(n *yaml.Node, text string) {
	n.Value, n.Tag, n.Style = text, "", 0
}

var (
	// spellings that stay strings whoever reads them
	vfC13PlainStrings = []string{"abc", "v1x", "two words", "00x7", "a-b.example", "007a", "1.2.3.4.5"}
	// spellings that an untyped reader takes for a number, a date or null
	vfC13LookAlikes = []string{"007", "1.10", "2024-01-01", "1e3", "0x1F", "0o17", "+1", "1_000", ".5", "~", "0.0"}
)

// TestVFC13SpellingPreserved: "settings a step does not concern are preserved",
// judged where it matters, at the running configuration.  A string setting of an
// old configuration file is given another plain spelling; the start that
// upgrades the file must end with the same running configuration as a start on
// an already current file in which the same setting has the same spelling.
func TestVFC13SpellingPreserved(t *testing.T) {
	vfkit.Begin(t)
	log.SetOutput(io.Discard)

	repo := os.Getenv("VERIF_REPO")
	if repo == "" {
		repo = "/repo"
	}
	golden := filepath.Join(repo, "internal", "configmigrate", "testdata", "TestMigrateConfig_Migrate")
	ents, err := os.ReadDir(golden)
	if err != nil {
		t.Fatalf("VERIF-INCONCLUSIVE reading %s: %v", golden, err)
	}
	type input struct {
		name    string
		old     []byte
		current []byte
	}
	var inputs []input
	for _, e := range ents {
		b, rerr := os.ReadFile(filepath.Join(golden, e.Name(), "input.yml"))
		if rerr != nil {
			continue
		}
		var ver struct {
			V uint `yaml:"schema_version"`
		}
		if yaml.Unmarshal(b, &ver) != nil || ver.V+4 < configmigrate.LastSchemaVersion {
			// paths of settings move between distant versions
			continue
		}
		dir := t.TempDir()
		m := configmigrate.New(&configmigrate.Config{WorkingDir: dir, DataDir: filepath.Join(dir, "data")})
		cur, upgraded, merr := m.Migrate(b, configmigrate.LastSchemaVersion)
		if merr != nil || !upgraded {
			continue
		}
		inputs = append(inputs, input{name: e.Name(), old: b, current: cur})
	}
	if len(inputs) < 2 {
		t.Fatalf("VERIF-INCONCLUSIVE only %d recent historical configurations found", len(inputs))
	}

	defaults, err := yaml.Marshal(config)
	if err != nil {
		t.Fatalf("VERIF-INCONCLUSIVE marshalling the default configuration: %v", err)
	}
	prevConfig, prevDir := config, globalContext.workDir
	defer func() { config, globalContext.workDir = prevConfig, prevDir }()
	start := func(body []byte) (snapshot []byte, serr error) {
		dir, derr := os.MkdirTemp("", "vfc13spell")
		if derr != nil {
			t.Fatalf("VERIF-INCONCLUSIVE mkdir: %v", derr)
		}
		defer os.RemoveAll(dir)
		globalContext.workDir = dir
		initConfigFilename(options{})
		if werr := os.WriteFile(configFilePath(), body, 0o644); werr != nil {
			t.Fatalf("VERIF-INCONCLUSIVE write: %v", werr)
		}
		c := &configuration{}
		if uerr := yaml.Unmarshal(defaults, c); uerr != nil {
			t.Fatalf("VERIF-INCONCLUSIVE re-reading the default configuration: %v", uerr)
		}
		config = c
		if serr = parseConfig(); serr != nil {
			return nil, serr
		}
		config.fileData = nil
		// the one setting the last step does concern; it names the directory
		if config.Filtering != nil {
			config.Filtering.SafeFSPatterns = nil
		}
		snapshot, merr := yaml.Marshal(config)
		if merr != nil {
			t.Fatalf("VERIF-INCONCLUSIVE marshalling the running configuration: %v", merr)
		}

		return snapshot, nil
	}

	_, open := vfkit.KnownOpen("C13", vfC13SigRetyped)
	reported := false
	rapid.Check(t, func(t *rapid.T) {
		in := rapid.SampledFrom(inputs).Draw(t, "historical_config")
		var oldDoc, curDoc yaml.Node
		if yaml.Unmarshal(in.old, &oldDoc) != nil || yaml.Unmarshal(in.current, &curDoc) != nil {
			t.Fatalf("VERIF-INCONCLUSIVE %s does not parse", in.name)
		}
		var paths []vfC13Path
		vfC13StringScalars(&oldDoc, nil, &paths)
		// only settings that sit at the same place in the current schema
		var shared []vfC13Path
		for _, p := range paths {
			if n := vfC13NodeAt(&curDoc, p); n != nil && n.Kind == yaml.ScalarNode && n.ShortTag() == "!!str" {
				shared = append(shared, p)
			}
		}
		if len(shared) == 0 {
			t.Fatalf("VERIF-INCONCLUSIVE %s: no string setting keeps its place", in.name)
		}
		n := rapid.IntRange(1, 3).Draw(t, "n_settings")
		lookAlike := false
		var desc []string
		for i := 0; i < n; i++ {
			p := rapid.SampledFrom(shared).Draw(t, fmt.Sprintf("setting%d", i))
			pool := vfC13PlainStrings
			if rapid.IntRange(0, 2).Draw(t, fmt.Sprintf("lookalike%d", i)) == 0 {
				pool = vfC13LookAlikes
			}
			text := rapid.SampledFrom(pool).Draw(t, fmt.Sprintf("spelling%d", i))
			if vfStrIn(text, vfC13LookAlikes) {
				if open {
					// the listed finding, kept out by construction
					vfC13H.Excluded(vfC13SigRetyped)
					text = "abc"
				} else {
					lookAlike = true
				}
			}
			vfC13Respell(vfC13NodeAt(&oldDoc, p), text)
			vfC13Respell(vfC13NodeAt(&curDoc, p), text)
			desc = append(desc, strings.Join(p, ".")+": "+text)
		}
		oldBody, err1 := yaml.Marshal(&oldDoc)
		curBody, err2 := yaml.Marshal(&curDoc)
		if err1 != nil || err2 != nil {
			t.Fatalf("VERIF-INCONCLUSIVE encoding: %v %v", err1, err2)
		}

		upgradedRun, errUp := start(oldBody)
		currentRun, errCur := start(curBody)
		vfC13H.Eval()
		vfC13H.Class(fmt.Sprintf("spelling:lookalike=%t", lookAlike))
		vfC13H.Nontrivial("spelling|" + in.name + "|" + strings.Join(desc, "|"))
		switch {
		case errUp != nil && errCur != nil:
			vfC13H.Class("spelling:both_starts_refuse")
		case errUp != nil || errCur != nil:
			t.Fatalf("with %v in the %s configuration the start that upgrades the file says %v, a start on the current file with the same spelling says %v",
				desc, in.name, errUp, errCur)
		case !bytes.Equal(upgradedRun, currentRun):
			t.Fatalf("with %v in the %s configuration the start that upgrades the file runs with other settings than a start on a current file with the same spelling:\n%s",
				desc, in.name, vfC13Diff(currentRun, upgradedRun))
		}
	})

	if open && !reported {
		reported = true
		// the shape of the listed finding, shown on one fixed input
		in := inputs[len(inputs)-1]
		var oldDoc, curDoc yaml.Node
		_ = yaml.Unmarshal(in.old, &oldDoc)
		_ = yaml.Unmarshal(in.current, &curDoc)
		var paths []vfC13Path
		vfC13StringScalars(&oldDoc, nil, &paths)
		for _, p := range paths {
			a, b := vfC13NodeAt(&oldDoc, p), vfC13NodeAt(&curDoc, p)
			if b == nil || b.Kind != yaml.ScalarNode || b.ShortTag() != "!!str" || p[0] != "users" {
				continue
			}
			vfC13Respell(a, "007")
			vfC13Respell(b, "007")
			oldBody, _ := yaml.Marshal(&oldDoc)
			curBody, _ := yaml.Marshal(&curDoc)
			up, e1 := start(oldBody)
			cur, e2 := start(curBody)
			if e1 == nil && e2 == nil && !bytes.Equal(up, cur) {
				vfC13H.KnownLine(fmt.Sprintf("%s: %s set to the plain scalar 007 in the %s configuration: after the upgrade the program runs with %q, on a current file with the same spelling with \"007\"",
					vfC13SigRetyped, strings.Join(p, "."), in.name, strings.TrimSpace(vfC13Diff(cur, up))))
			} else {
				t.Fatalf("the listed finding %s no longer shows on %s (%v %v): remove it from known_findings.json", vfC13SigRetyped, strings.Join(p, "."), e1, e2)
			}

			break
		}
	}
}

func vfStrIn(s string, ss []string) (ok bool) {
	for _, x := range ss {
		if x == s {
			return true
		}
	}

	return false
}

// TestVFC13NullLeaves enumerates, for every historical configuration, every
// setting one level below a section and gives it an explicit null ("use the
// default" for the typed loader of every schema, like leaving the key out).
// The start must then do what it does with the key left out: either start, or
// fail without having replaced the file.
func TestVFC13NullLeaves(t *testing.T) {
	vfkit.Begin(t)
	log.SetOutput(io.Discard)

	repo := os.Getenv("VERIF_REPO")
	if repo == "" {
		repo = "/repo"
	}
	golden := filepath.Join(repo, "internal", "configmigrate", "testdata", "TestMigrateConfig_Migrate")
	ents, err := os.ReadDir(golden)
	if err != nil {
		t.Fatalf("VERIF-INCONCLUSIVE reading %s: %v", golden, err)
	}
	defaults, err := yaml.Marshal(config)
	if err != nil {
		t.Fatalf("VERIF-INCONCLUSIVE marshalling the default configuration: %v", err)
	}
	prevConfig, prevDir := config, globalContext.workDir
	defer func() { config, globalContext.workDir = prevConfig, prevDir }()
	start := func(body []byte) (after []byte, serr error) {
		dir, derr := os.MkdirTemp("", "vfc13null")
		if derr != nil {
			t.Fatalf("VERIF-INCONCLUSIVE mkdir: %v", derr)
		}
		defer os.RemoveAll(dir)
		globalContext.workDir = dir
		initConfigFilename(options{})
		if werr := os.WriteFile(configFilePath(), body, 0o644); werr != nil {
			t.Fatalf("VERIF-INCONCLUSIVE write: %v", werr)
		}
		c := &configuration{}
		if uerr := yaml.Unmarshal(defaults, c); uerr != nil {
			t.Fatalf("VERIF-INCONCLUSIVE re-reading the default configuration: %v", uerr)
		}
		config = c
		serr = parseConfig()
		after, _ = os.ReadFile(configFilePath())

		return after, serr
	}

	cases, refusedBoth := 0, 0
	for _, e := range ents {
		b, rerr := os.ReadFile(filepath.Join(golden, e.Name(), "input.yml"))
		if rerr != nil {
			continue
		}
		var doc map[string]any
		if yaml.Unmarshal(b, &doc) != nil {
			continue
		}
		var sections []string
		for k, v := range doc {
			if _, ok := v.(map[string]any); ok {
				sections = append(sections, k)
			}
		}
		sort.Strings(sections)
		for _, sec := range sections {
			sub := doc[sec].(map[string]any)
			var keys []string
			for k, v := range sub {
				if _, isSection := v.(map[string]any); !isSection && v != nil {
					keys = append(keys, k)
				}
			}
			sort.Strings(keys)
			for _, k := range keys {
				saved := sub[k]
				sub[k] = nil
				nulled, _ := yaml.Marshal(doc)
				delete(sub, k)
				dropped, _ := yaml.Marshal(doc)
				sub[k] = saved

				_, errDropped := start(dropped)
				after, errNulled := start(nulled)
				cases++
				vfC13H.Eval()
				vfC13H.Class("null_leaf:" + e.Name())
				vfC13H.Nontrivial(fmt.Sprintf("null_leaf|%s|%s.%s", e.Name(), sec, k))
				switch {
				case errNulled == nil:
				case bytes.Equal(after, nulled):
					// refused, file untouched
					refusedBoth++
				case errDropped != nil:
					// the file without the key is refused after the upgrade as
					// well: the historical input needs that key
					refusedBoth++
				default:
					t.Fatalf("%s with %s.%s: null: the upgrade replaced the file and the program refuses the result (%v); with the key left out the same "+
						"file starts\nfile now:\n%s", e.Name(), sec, k, errNulled, vfC13Excerpt(after))
				}
			}
		}
	}
	vfC13H.Note("null_leaf_cases", cases)
	vfC13H.Note("null_leaf_refused_like_absent", refusedBoth)
	if cases < 300 {
		t.Fatalf("VERIF-INCONCLUSIVE only %d settings enumerated", cases)
	}
}
