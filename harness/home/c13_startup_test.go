//go:build verif

package home

// C13 at the place where it happens: the start-up path (parseConfig) reads the
// file, upgrades it, writes it back and loads it.  The start that performs the
// upgrade must end with the same running configuration as the next start, which
// finds the file already current (a differential between two runs of the real
// function); the file is stamped with the current version, a failing start
// leaves the file as it was, and a second start changes nothing.
// Inputs: the repository's own historical configurations (one per schema
// version) with generated deletions of sections and keys.

import (
	"bytes"
	"fmt"
	"io"
	"os"
	"path/filepath"
	"sort"
	"testing"

	"github.com/AdguardTeam/AdGuardHome/internal/configmigrate"
	"github.com/AdguardTeam/AdGuardHome/internal/vfkit"
	"github.com/AdguardTeam/golibs/log"
	"gopkg.in/yaml.v3"
	"pgregory.net/rapid"
)

var vfC13H = vfkit.For("C13")

func TestVFC13StartupUpgrade(t *testing.T) {
	vfkit.Begin(t)
	log.SetOutput(io.Discard)

	repo := os.Getenv("VERIF_REPO")
	if repo == "" {
		repo = "/repo"
	}
	golden := filepath.Join(repo, "internal", "configmigrate", "testdata", "TestMigrateConfig_Migrate")
	ents, err := os.ReadDir(golden)
	if err != nil {
		t.Fatalf("VERIF-INCONCLUSIVE reading %s: %v", golden, err)
	}
	inputs := map[string][]byte{}
	var names []string
	for _, e := range ents {
		b, rerr := os.ReadFile(filepath.Join(golden, e.Name(), "input.yml"))
		if rerr == nil {
			inputs[e.Name()] = b
			names = append(names, e.Name())
		}
	}
	sort.Strings(names)
	if len(names) < 20 {
		t.Fatalf("VERIF-INCONCLUSIVE only %d historical configurations found under %s", len(names), golden)
	}

	defaults, err := yaml.Marshal(config)
	if err != nil {
		t.Fatalf("VERIF-INCONCLUSIVE marshalling the default configuration: %v", err)
	}
	prevConfig, prevDir := config, globalContext.workDir
	defer func() { config, globalContext.workDir = prevConfig, prevDir }()
	fresh := func() {
		c := &configuration{}
		if uerr := yaml.Unmarshal(defaults, c); uerr != nil {
			t.Fatalf("VERIF-INCONCLUSIVE re-reading the default configuration: %v", uerr)
		}
		config = c
	}

	rapid.Check(t, func(t *rapid.T) {
		name := rapid.SampledFrom(names).Draw(t, "historical_config")
		body := inputs[name]

		// generated deletions: a top-level section and/or a key one level down
		var doc map[string]any
		if yerr := yaml.Unmarshal(body, &doc); yerr != nil {
			t.Fatalf("VERIF-INCONCLUSIVE %s: %v", name, yerr)
		}
		var keys []string
		for k := range doc {
			if k != "schema_version" {
				keys = append(keys, k)
			}
		}
		sort.Strings(keys)
		mutation := "none"
		if len(keys) > 0 && rapid.IntRange(0, 2).Draw(t, "mutate") > 0 {
			k := rapid.SampledFrom(keys).Draw(t, "section")
			if sub, ok := doc[k].(map[string]any); ok && len(sub) > 0 && rapid.Bool().Draw(t, "one_level_down") {
				var subKeys []string
				for sk := range sub {
					subKeys = append(subKeys, sk)
				}
				sort.Strings(subKeys)
				sk := rapid.SampledFrom(subKeys).Draw(t, "key")
				delete(sub, sk)
				mutation = "drop " + k + "." + sk
			} else {
				delete(doc, k)
				mutation = "drop " + k
			}
			nb, merr := yaml.Marshal(doc)
			if merr != nil {
				t.Fatalf("VERIF-INCONCLUSIVE re-encoding: %v", merr)
			}
			body = nb
		}

		dir, derr := os.MkdirTemp("", "vfc13start")
		if derr != nil {
			t.Fatalf("VERIF-INCONCLUSIVE mkdir: %v", derr)
		}
		defer os.RemoveAll(dir)
		globalContext.workDir = dir
		initConfigFilename(options{})
		confPath := configFilePath()
		if werr := os.WriteFile(confPath, body, 0o644); werr != nil {
			t.Fatalf("VERIF-INCONCLUSIVE write: %v", werr)
		}

		start := func() (snapshot []byte, serr error) {
			fresh()
			serr = parseConfig()
			if serr != nil {
				return nil, serr
			}
			config.fileData = nil
			snapshot, merr := yaml.Marshal(config)
			if merr != nil {
				t.Fatalf("VERIF-INCONCLUSIVE marshalling the running configuration: %v", merr)
			}

			return snapshot, nil
		}

		first, err1 := start()
		afterFirst, rerr := os.ReadFile(confPath)
		if rerr != nil {
			t.Fatalf("the configuration file is gone after the start: %v", rerr)
		}
		vfC13H.Eval()
		vfC13H.Class("startup:from:" + name)
		vfC13H.Class("startup:mutation:" + map[bool]string{true: "none", false: "deletion"}[mutation == "none"])
		vfC13H.Nontrivial(fmt.Sprintf("startup|%s|%s", name, mutation))
		if vfC13H.WantSample("startup") {
			vfC13H.Sample("startup", map[string]any{"historical_config": name, "mutation": mutation, "first_start_error": fmt.Sprint(err1)})
		}
		desc := fmt.Sprintf("start-up with the %s configuration (%s)", name, mutation)

		if err1 != nil {
			vfC13H.Class("startup:first_start_failed")
			if !bytes.Equal(afterFirst, body) {
				// the upgrade itself may have succeeded and only the loader
				// refused: then the file holds the upgraded document, which a
				// second upgrade must leave alone (checked below); anything
				// else is a changed file after a failure
				m := configmigrate.New(&configmigrate.Config{WorkingDir: dir, DataDir: filepath.Join(dir, "data")})
				if _, upgraded, merr := m.Migrate(afterFirst, configmigrate.LastSchemaVersion); merr != nil || upgraded {
					t.Fatalf("%s failed (%v) and left a file that is neither the old one nor a current one", desc, err1)
				}
			}

			return
		}

		var stamped struct {
			Version uint `yaml:"schema_version"`
		}
		if yerr := yaml.Unmarshal(afterFirst, &stamped); yerr != nil || stamped.Version != configmigrate.LastSchemaVersion {
			t.Fatalf("%s: the file is stamped %d afterwards (decode error %v), want %d", desc, stamped.Version, yerr, configmigrate.LastSchemaVersion)
		}
		if config.SchemaVersion != configmigrate.LastSchemaVersion {
			t.Fatalf("%s: the running configuration says schema_version %d, want %d", desc, config.SchemaVersion, configmigrate.LastSchemaVersion)
		}

		second, err2 := start()
		if err2 != nil {
			t.Fatalf("%s succeeded, the next start on the upgraded file fails: %v", desc, err2)
		}
		afterSecond, _ := os.ReadFile(confPath)
		if !bytes.Equal(afterFirst, afterSecond) {
			t.Fatalf("%s: the next start changed the already current file", desc)
		}
		if !bytes.Equal(first, second) {
			t.Fatalf("%s: the start that upgraded the file runs with another configuration than the next start on the upgraded file\nfirst:\n%s\nsecond:\n%s",
				desc, vfC13Diff(first, second), "")
		}
	})
}

// vfC13Diff shows the lines that differ between two YAML documents.
func vfC13Diff(a, b []byte) (s string) {
	al, bl := bytes.Split(a, []byte("\n")), bytes.Split(b, []byte("\n"))
	seen := map[string]int{}
	for _, l := range al {
		seen[string(l)]++
	}
	for _, l := range bl {
		seen[string(l)]--
	}
	n := 0
	for l, c := range seen {
		if c != 0 && n < 12 {
			s += fmt.Sprintf("  %+d %s\n", c, l)
			n++
		}
	}

	return s
}
