//go:build verif

package home

// C11 during shutdown: the production web server is started on a loopback
// port, connections are opened, the production cleanup() runs, and -- once the
// listener is gone, i.e. while the servers drain -- unauthenticated requests
// for protected routes are sent on the connections that were already open.
// Each must still be refused (or find its connection closed).  Runs in a
// process of its own: cleanup() tears the assembled globals down.

import (
	"bufio"
	"context"
	"fmt"
	"io"
	"net"
	"net/http"
	"net/netip"
	"os"
	"testing"
	"time"

	"github.com/AdguardTeam/AdGuardHome/internal/vfkit"
	"gopkg.in/yaml.v3"
)

func TestVFC11Shutdown(t *testing.T) {
	vfkit.Begin(t)
	a := vfAssemble()
	if a.err != nil {
		t.Fatalf("assembly failed: %v", a.err)
	}

	// a free loopback port for the production plain-HTTP server
	l, err := net.Listen("tcp", "127.0.0.1:0")
	if err != nil {
		t.Fatalf("VERIF-INCONCLUSIVE listen: %v", err)
	}
	addr := l.Addr().String()
	_ = l.Close()
	a.web.conf.BindAddr = netip.MustParseAddrPort(addr)

	ctx := context.Background()
	go a.web.start(ctx)
	up := false
	for i := 0; i < 200; i++ {
		c, derr := net.DialTimeout("tcp", addr, time.Second)
		if derr == nil {
			_ = c.Close()
			up = true

			break
		}
		time.Sleep(25 * time.Millisecond)
	}
	if !up {
		t.Fatalf("VERIF-INCONCLUSIVE the web server did not come up on %s", addr)
	}

	routes := []string{"/control/status", "/control/clients", "/control/querylog", "/control/filtering/status", "/control/profile", "/control/dhcp/status", "/control/tls/status", "/control/stats"}
	type probe struct {
		conn  net.Conn
		route string
	}
	var probes []probe
	for i := 0; i < 24; i++ {
		c, derr := net.DialTimeout("tcp", addr, 2*time.Second)
		if derr != nil {
			t.Fatalf("VERIF-INCONCLUSIVE dial: %v", derr)
		}
		defer c.Close()
		probes = append(probes, probe{conn: c, route: routes[i%len(routes)]})
	}

	// sanity: before the shutdown the route is refused on a connection
	first := probes[0]
	probes = probes[1:]
	code, serr := vfShutdownAsk(first.conn, first.route)
	if serr != nil || code != http.StatusForbidden {
		t.Fatalf("VERIF-INCONCLUSIVE before shutdown GET %s answered %d (%v), want 403", first.route, code, serr)
	}

	// The assembly has saved the configuration once to create the file, which
	// also put the list of users back into the configuration.  A program
	// started on an existing file has not saved anything yet: its list is what
	// the real initUsers leaves behind after handing the users of the file to
	// the authentication module.  Go through that again.
	if rerr := vfRestartAuth(); rerr != nil {
		t.Fatalf("VERIF-INCONCLUSIVE re-creating the authentication module: %v", rerr)
	}

	started := time.Now()
	done := make(chan struct{})
	go func() { cleanup(ctx); close(done) }()

	// wait until the listener is gone: the servers are draining
	gone := false
	for time.Since(started) < 1500*time.Millisecond {
		c, derr := net.DialTimeout("tcp", addr, 200*time.Millisecond)
		if derr != nil {
			gone = true

			break
		}
		_ = c.Close()
		time.Sleep(2 * time.Millisecond)
	}
	if !gone {
		t.Fatalf("VERIF-INCONCLUSIVE the listener was still accepting 1.5 s after cleanup() began")
	}

	refused, closed, late := 0, 0, 0
	for i, p := range probes {
		// Connections that have not sent a request count as idle after 5 s and
		// the drain itself is limited to 5 s: stay well inside both.
		if time.Since(started) > 2*time.Second {
			late++

			continue
		}
		code, aerr := vfShutdownAsk(p.conn, p.route)
		vfC11.Eval()
		switch {
		case aerr != nil:
			closed++
			vfC11.Class("shutdown:connection_closed")
		case code == http.StatusForbidden || code == http.StatusFound:
			refused++
			vfC11.Class("shutdown:refused_while_draining")
		default:
			t.Fatalf("while the web servers were draining (%s after cleanup() began) an unauthenticated GET %s on an open connection answered %d",
				time.Since(started).Round(time.Millisecond), p.route, code)
		}
		vfC11.Nontrivial(fmt.Sprintf("shutdown|%d|%s", i, p.route))
		time.Sleep(time.Duration(i%5) * 10 * time.Millisecond)
	}
	vfC11.Note("shutdown_refused", refused)
	vfC11.Note("shutdown_closed", closed)
	vfC11.Note("shutdown_late_not_asserted", late)
	vfC11.Sample("shutdown", map[string]any{"refused_while_draining": refused, "connection_closed": closed, "not_asserted_late": late})
	if refused == 0 {
		t.Fatalf("VERIF-INCONCLUSIVE no request was answered while the servers were draining (closed %d, late %d)", closed, late)
	}
	for _, p := range probes {
		_ = p.conn.Close()
	}
	select {
	case <-done:
	case <-time.After(20 * time.Second):
		t.Fatalf("cleanup() did not return within 20 s")
	}

	// A state-changing call that was still running when the shutdown began
	// (the wait for open requests is limited to 5 s; a slow list download takes
	// longer) ends with a save of the configuration.  What it saves is what
	// the next start reads: the administrator account must be in it.
	if werr := config.write(globalContext.tls); werr != nil {
		t.Fatalf("VERIF-INCONCLUSIVE saving the configuration after cleanup(): %v", werr)
	}
	vfC11.Eval()
	vfC11.Class("shutdown:configuration_saved_after_cleanup")
	raw, rerr := os.ReadFile(configFilePath())
	if rerr != nil {
		t.Fatalf("reading the configuration saved after cleanup(): %v", rerr)
	}
	var saved struct {
		Users []struct {
			Name     string `yaml:"name"`
			Password string `yaml:"password"`
		} `yaml:"users"`
	}
	if yerr := yaml.Unmarshal(raw, &saved); yerr != nil {
		t.Fatalf("the configuration saved after cleanup() does not parse: %v", yerr)
	}
	hasAdmin := false
	for _, u := range saved.Users {
		hasAdmin = hasAdmin || (u.Name == vfAdminUser && u.Password != "")
	}
	if !hasAdmin {
		t.Fatalf("a configuration save that ended after cleanup() wrote users: %v -- the administrator %q is gone; the next start finds a "+
			"configuration without accounts and serves every endpoint without credentials", saved.Users, vfAdminUser)
	}
}

// vfShutdownAsk sends one unauthenticated GET on an open connection.
func vfShutdownAsk(c net.Conn, route string) (code int, err error) {
	_ = c.SetDeadline(time.Now().Add(5 * time.Second))
	_, err = io.WriteString(c, "GET "+route+" HTTP/1.1\r\nHost: agh.vf.test\r\n\r\n")
	if err != nil {
		return 0, err
	}
	resp, err := http.ReadResponse(bufio.NewReader(c), &http.Request{Method: http.MethodGet})
	if err != nil {
		return 0, err
	}
	_, _ = io.Copy(io.Discard, io.LimitReader(resp.Body, 1<<16))
	_ = resp.Body.Close()

	return resp.StatusCode, nil
}
