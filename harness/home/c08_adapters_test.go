//go:build verif

package home

// C08 (home adapters part): the two functions through which the query log and
// the statistics learn a client's ignore flags (findMultiple, shouldCountClient)
// resolve the ids of a request -- ClientID first, then the address -- to the
// persistent client that owns them, by ClientID, exact address, subnet or DHCP
// MAC.  The dnsforward part of C08 restates these adapters; this part checks the
// real ones against the same model.

import (
	"context"
	"fmt"
	"net/netip"
	"testing"

	"github.com/AdguardTeam/AdGuardHome/internal/client"
	"github.com/AdguardTeam/AdGuardHome/internal/filtering"
	"github.com/AdguardTeam/AdGuardHome/internal/schedule"
	"github.com/AdguardTeam/AdGuardHome/internal/vfkit"
	"pgregory.net/rapid"
)

var vfC08 = vfkit.For("C08")

func TestVFC08HomeAdapters(t *testing.T) {
	vfkit.Begin(t)
	a := vfAssemble()
	if a.err != nil {
		t.Fatalf("assembly failed: %v", a.err)
	}
	ctx := context.Background()
	st := globalContext.clients.storage

	rapid.Check(t, func(t *rapid.T) {
		// start from an empty registry
		var names []string
		st.RangeByName(func(c *client.Persistent) (cont bool) {
			names = append(names, c.Name)

			return true
		})
		for _, n := range names {
			st.RemoveByName(ctx, n)
		}

		type owner struct {
			name              string
			ignLog, ignStat   bool
			ip                netip.Addr
			subnet            netip.Prefix
			clientID          string
			hasIP, hasSub, id bool
		}
		var owners []*owner
		kinds := rapid.SliceOfNDistinct(rapid.SampledFrom([]string{"ip", "subnet", "clientid"}), 1, 3, rapid.ID[string]).Draw(t, "client_kinds")
		for i, k := range kinds {
			o := &owner{name: fmt.Sprintf("c%d-%s", i, k), ignLog: rapid.Bool().Draw(t, k+"_ignlog"), ignStat: rapid.Bool().Draw(t, k+"_ignstat")}
			p := &client.Persistent{
				Name: o.name, UID: client.MustNewUID(), IgnoreQueryLog: o.ignLog, IgnoreStatistics: o.ignStat,
				BlockedServices: &filtering.BlockedServices{Schedule: schedule.EmptyWeekly()},
			}
			switch k {
			case "ip":
				o.ip, o.hasIP = netip.MustParseAddr(rapid.SampledFrom([]string{"192.0.2.77", "2001:db8:77::77", "fe80::77%eth0"}).Draw(t, "ip")), true
				p.IPs = []netip.Addr{o.ip}
			case "subnet":
				o.subnet, o.hasSub = netip.MustParsePrefix(rapid.SampledFrom([]string{"198.51.100.128/25", "2001:db8:c1d::/64"}).Draw(t, "subnet")), true
				p.Subnets = []netip.Prefix{o.subnet}
			default:
				o.clientID, o.id = "cid-client", true
				p.ClientIDs = []string{o.clientID}
			}
			if err := st.Add(ctx, p); err != nil {
				t.Fatalf("VERIF-INCONCLUSIVE add client: %v", err)
			}
			owners = append(owners, o)
		}

		n := rapid.IntRange(3, 10).Draw(t, "n_lookups")
		for i := 0; i < n; i++ {
			addr := netip.MustParseAddr(rapid.SampledFrom([]string{
				"192.0.2.77", "192.0.2.78", "198.51.100.130", "198.51.100.1", "2001:db8:77::77", "2001:db8:c1d::9", "203.0.113.5",
				// a link-local client: the DNS server reports its address to the log
				// and the statistics without the zone of the interface
				"fe80::77", "fe80::77",
			}).Draw(t, fmt.Sprintf("l%d_addr", i)))
			cid := rapid.SampledFrom([]string{"", "", "cid-client", "other-id"}).Draw(t, fmt.Sprintf("l%d_cid", i))
			ids := []string{addr.String()}
			if cid != "" {
				ids = []string{cid, addr.String()}
			}

			// model: ClientID first, then exact address, then containing subnet
			var want *owner
			for _, o := range owners {
				if o.id && cid == o.clientID {
					want = o
				}
			}
			if want == nil {
				for _, o := range owners {
					if o.hasIP && (o.ip == addr || o.ip.WithZone("") == addr) {
						want = o
					}
				}
			}
			if want == nil {
				for _, o := range owners {
					if o.hasSub && o.subnet.Contains(addr) {
						want = o
					}
				}
			}

			qc, err := globalContext.clients.findMultiple(ids)
			if err != nil || qc == nil {
				t.Fatalf("findMultiple(%v) = %v, %v", ids, qc, err)
			}
			counted := globalContext.clients.shouldCountClient(ids)

			vfC08.Eval()
			vfC08.Class("home_adapters")
			if want != nil {
				vfC08.Nontrivial(fmt.Sprintf("home|%v|%s|%t|%t", kinds, want.name, want.ignLog, want.ignStat))
			}
			switch {
			case want == nil:
				if qc.IgnoreQueryLog || !counted {
					t.Fatalf("ids %v belong to no persistent client, but ignore-log=%t counted=%t", ids, qc.IgnoreQueryLog, counted)
				}
			default:
				if qc.IgnoreQueryLog != want.ignLog || qc.Name != want.name {
					t.Fatalf("findMultiple(%v) = {name %q ignore-log %t}, want client %q with ignore-log %t", ids, qc.Name, qc.IgnoreQueryLog, want.name, want.ignLog)
				}
				if counted == want.ignStat {
					t.Fatalf("shouldCountClient(%v) = %t, client %q has ignore-statistics %t", ids, counted, want.name, want.ignStat)
				}
			}
		}
	})
}
