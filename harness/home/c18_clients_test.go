//go:build verif

package home

// C18 (clients across a restart): the pause schedule of a persistent client's
// own blocked services is part of what the program writes to its configuration
// and reads back at the next start.  Whatever the administrator did to the
// client in between (switched it to the global list and back, renamed it,
// changed its services), after a restart the clients API shows the schedule
// that was set last, and the client is paused at the instants that schedule
// covers.

import (
	"bytes"
	"context"
	"encoding/json"
	"fmt"
	"net/http"
	"net/http/httptest"
	"net/netip"
	"sort"
	"strings"
	"testing"
	"time"

	"github.com/AdguardTeam/AdGuardHome/internal/client"
	"github.com/AdguardTeam/AdGuardHome/internal/filtering"
	"github.com/AdguardTeam/AdGuardHome/internal/vfkit"
	"github.com/AdguardTeam/golibs/logutil/slogutil"
	"gopkg.in/yaml.v3"
	"pgregory.net/rapid"
)

var vfC18H = vfkit.For("C18")

// vfC18Sched is a generated weekly schedule in the JSON form of the API.
type vfC18Sched struct {
	Zone string
	// Days maps the three-letter day name to [start, end) in minutes.
	Days map[string][2]int
}

func (s vfC18Sched) json() (raw string) {
	parts := []string{fmt.Sprintf("%q:%q", "time_zone", s.Zone)}
	for _, d := range []string{"sun", "mon", "tue", "wed", "thu", "fri", "sat"} {
		if r, ok := s.Days[d]; ok {
			parts = append(parts, fmt.Sprintf(`%q:{"start":%d,"end":%d}`, d, r[0]*60000, r[1]*60000))
		}
	}

	return "{" + strings.Join(parts, ",") + "}"
}

func vfC18DrawSched(t *rapid.T, label string) (s vfC18Sched) {
	s.Zone = rapid.SampledFrom([]string{"UTC", "Asia/Kolkata", "America/St_Johns", "Australia/Lord_Howe", "Europe/Berlin", "Local"}).Draw(t, label+"_zone")
	s.Days = map[string][2]int{}
	for _, d := range []string{"sun", "mon", "tue", "wed", "thu", "fri", "sat"} {
		switch rapid.IntRange(0, 3).Draw(t, label+"_"+d) {
		case 0:
			// no pause that day
		case 1:
			s.Days[d] = [2]int{0, 1440}
		default:
			a := rapid.IntRange(0, 1438).Draw(t, label+"_"+d+"_start")
			s.Days[d] = [2]int{a, rapid.IntRange(a+1, 1440).Draw(t, label+"_"+d+"_end")}
		}
	}

	return s
}

// vfC18Norm brings a schedule in API JSON into a comparable form.
func vfC18Norm(raw []byte) (norm string) {
	var m map[string]any
	if err := json.Unmarshal(raw, &m); err != nil {
		return "unparseable: " + string(raw)
	}
	keys := make([]string, 0, len(m))
	for k := range m {
		keys = append(keys, k)
	}
	sort.Strings(keys)
	var parts []string
	for _, k := range keys {
		b, _ := json.Marshal(m[k])
		parts = append(parts, k+"="+string(b))
	}

	return strings.Join(parts, " ")
}

func TestVFC18ClientScheduleRestart(t *testing.T) {
	vfkit.Begin(t)
	filtering.InitModule()
	ctx := context.Background()

	newContainer := func(objs []*clientObject) (c *clientsContainer, err error) {
		c = &clientsContainer{testing: true}
		err = c.Init(ctx, slogutil.NewDiscardLogger(), objs, client.EmptyDHCP{}, nil, nil, &filtering.Config{}, newSignalHandler(nil, nil))

		return c, err
	}

	rapid.Check(t, func(t *rapid.T) {
		c, err := newContainer(nil)
		if err != nil {
			t.Fatalf("VERIF-INCONCLUSIVE clients container: %v", err)
		}
		post := func(h http.HandlerFunc, body any) (code int, text string) {
			b, _ := json.Marshal(body)
			rec := httptest.NewRecorder()
			h(rec, httptest.NewRequest(http.MethodPost, "/", bytes.NewReader(b)))

			return rec.Code, rec.Body.String()
		}

		const cliIP = "192.0.2.7"
		name := "kid"
		sched := vfC18DrawSched(t, "s0")
		useGlobal := rapid.Bool().Draw(t, "use_global_services")
		object := func() (m map[string]any) {
			return map[string]any{
				"name": name, "ids": []string{cliIP}, "use_global_settings": true, "use_global_blocked_services": useGlobal,
				"blocked_services": []string{"youtube"}, "blocked_services_schedule": json.RawMessage(sched.json()),
				"tags": []string{}, "upstreams": []string{},
			}
		}
		if code, text := post(c.handleAddClient, object()); code != http.StatusOK {
			t.Fatalf("VERIF-INCONCLUSIVE adding the client: %d %s", code, text)
		}

		var trace []string
		restarts := 0
		n := rapid.IntRange(1, 7).Draw(t, "n_ops")
		for i := 0; i < n; i++ {
			label := fmt.Sprintf("op%d", i)
			switch rapid.SampledFrom([]string{"toggle_global", "new_schedule", "rename", "restart", "restart"}).Draw(t, label) {
			case "toggle_global":
				useGlobal = !useGlobal
				trace = append(trace, fmt.Sprintf("use_global_blocked_services=%t", useGlobal))
			case "new_schedule":
				sched = vfC18DrawSched(t, label+"_s")
				trace = append(trace, "new schedule")
			case "rename":
				old := name
				name = map[string]string{"kid": "kid tablet", "kid tablet": "kid"}[name]
				trace = append(trace, "rename")
				if code, text := post(c.handleUpdateClient, map[string]any{"name": old, "data": object()}); code != http.StatusOK {
					t.Fatalf("update (rename) refused: %d %s\nhistory: %v", code, text, trace)
				}

				continue
			default:
				// the configuration is written and the program starts again
				data, merr := yaml.Marshal(c.forConfig())
				if merr != nil {
					t.Fatalf("encoding the clients for the configuration file: %v", merr)
				}
				var objs []*clientObject
				if uerr := yaml.Unmarshal(data, &objs); uerr != nil {
					t.Fatalf("the clients written to the configuration do not read back: %v\n%s", uerr, data)
				}
				if c, err = newContainer(objs); err != nil {
					t.Fatalf("the clients written to the configuration are refused at start: %v\n%s", err, data)
				}
				restarts++
				trace = append(trace, "restart")

				continue
			}
			if code, text := post(c.handleUpdateClient, map[string]any{"name": name, "data": object()}); code != http.StatusOK {
				t.Fatalf("update refused: %d %s\nhistory: %v", code, text, trace)
			}
		}

		// what the API shows
		rec := httptest.NewRecorder()
		c.handleGetClients(rec, httptest.NewRequest(http.MethodGet, "/", nil))
		var list struct {
			Clients []map[string]json.RawMessage `json:"clients"`
		}
		if jerr := json.Unmarshal(rec.Body.Bytes(), &list); jerr != nil || len(list.Clients) != 1 {
			t.Fatalf("GET clients: %v, %d clients\nhistory: %v", jerr, len(list.Clients), trace)
		}
		vfC18H.Eval()
		vfC18H.Class(fmt.Sprintf("clients:restarts=%d", min(restarts, 2)))
		vfC18H.Class(fmt.Sprintf("clients:use_global_at_end=%t", useGlobal))
		if restarts > 0 {
			vfC18H.Nontrivial(fmt.Sprintf("clients|%s|%v", sched.json(), trace))
		}
		if got, want := vfC18Norm(list.Clients[0]["blocked_services_schedule"]), vfC18Norm([]byte(sched.json())); got != want {
			t.Fatalf("the clients API shows the schedule %s, the one set last is %s\nhistory: %v", got, want, trace)
		}

		// what is applied, when the client uses its own list
		if !useGlobal {
			setts := &filtering.Settings{}
			c.storage.ApplyClientFiltering("", netip.MustParseAddr(cliIP), setts)
			if setts.BlockedServices == nil || setts.BlockedServices.Schedule == nil {
				t.Fatalf("the client's own blocked services are not applied\nhistory: %v", trace)
			}
			loc := time.Local
			if sched.Zone != "Local" {
				if loc, err = time.LoadLocation(sched.Zone); err != nil {
					t.Fatalf("VERIF-INCONCLUSIVE zone %s: %v", sched.Zone, err)
				}
			}
			for k := 0; k < 8; k++ {
				// a mid-week instant without a zone transition nearby
				day := rapid.IntRange(9, 15).Draw(t, fmt.Sprintf("probe%d_day", k))
				minute := rapid.IntRange(0, 1439).Draw(t, fmt.Sprintf("probe%d_minute", k))
				at := time.Date(2025, time.June, day, minute/60, minute%60, 30, 0, loc)
				dn := strings.ToLower(at.Weekday().String()[:3])
				r, has := sched.Days[dn]
				want := has && minute >= r[0] && minute < r[1]
				if got := setts.BlockedServices.Schedule.Contains(at); got != want {
					t.Fatalf("%s (%s %02d:%02d in %s): paused=%t, the schedule set last says %t (%v)\nhistory: %v",
						at, dn, minute/60, minute%60, sched.Zone, got, want, sched.Days, trace)
				}
			}
		}
	})
}
