//go:build verif

package home

// This file is NOT a test file on purpose: it is overlaid into package home as
// internal/home/zz_verif_c13_load.go (propdef C13, "extra_overlay") so that the
// C13 harness, which lives in the external test package configmigrate_test,
// can ask the *current configuration loader* whether it accepts a document.
// It only exists in builds carrying the "verif" tag and never in /repo.

import (
	"fmt"
	"runtime/debug"
	"sync"

	yaml "gopkg.in/yaml.v3"
)

var (
	vfC13DefaultOnce sync.Once
	vfC13DefaultYAML []byte
	vfC13DefaultErr  error
	vfC13LoadMu      sync.Mutex
)

// VFC13Load does what parseConfig does with the bytes it got back from the
// schema upgrade: decode them over the default configuration, then
// validateConfig and validateTLSCipherIDs.  Every call starts from a fresh copy
// of the defaults (the serialised form of the pristine global), so calls do not
// influence each other.  A panic of the loader is reported as an error whose
// text starts with "panic:".  setupErr is set when the shim itself could not
// prepare the defaults (a harness problem, not a verdict).
func VFC13Load(body []byte) (loadErr, setupErr error) {
	vfC13LoadMu.Lock()
	defer vfC13LoadMu.Unlock()

	vfC13DefaultOnce.Do(func() {
		vfC13DefaultYAML, vfC13DefaultErr = yaml.Marshal(config)
	})
	if vfC13DefaultErr != nil {
		return nil, fmt.Errorf("marshalling default configuration: %w", vfC13DefaultErr)
	}

	c := &configuration{}
	err := yaml.Unmarshal(vfC13DefaultYAML, c)
	if err != nil {
		return nil, fmt.Errorf("re-reading default configuration: %w", err)
	}

	prev := config
	config = c
	defer func() { config = prev }()

	defer func() {
		if r := recover(); r != nil {
			loadErr = fmt.Errorf("panic: %v\n%s", r, debug.Stack())
		}
	}()

	// The same three calls as in parseConfig.
	err = yaml.Unmarshal(body, &config)
	if err != nil {
		return err, nil
	}

	err = validateConfig()
	if err != nil {
		return err, nil
	}

	return validateTLSCipherIDs(config.TLS.OverrideTLSCiphers), nil
}

// VFC13LoadedSchema returns the schema version the loader would see in body
// (decoded into the configuration type), for the "stamped with the current
// version" check at the loader's side.
func VFC13LoadedSchema(body []byte) (v uint, err error) {
	c := &configuration{}
	err = yaml.Unmarshal(body, c)
	if err != nil {
		return 0, err
	}

	return c.SchemaVersion, nil
}
