//go:build verif

package home

// Assembly of the real admin HTTP mux for the home harnesses (C11, C12, ...):
// the production registration code of every module is run against
// globalContext.mux, exactly with the wrapper chain production gives each route.
// It mirrors the sequence of run() in home.go minus everything that opens a
// listening socket.  Nothing here is an oracle.

import (
	"context"
	"fmt"
	"io"
	"net/http"
	"net/netip"
	"os"
	"path/filepath"
	"reflect"
	"sort"
	"sync"
	"testing/fstest"
	"time"
	"unsafe"

	"github.com/AdguardTeam/AdGuardHome/internal/filtering"
	"github.com/AdguardTeam/golibs/log"
	"github.com/AdguardTeam/golibs/logutil/slogutil"
	"golang.org/x/crypto/bcrypt"
)

const (
	vfAdminUser = "admin"
	vfAdminPass = "correct horse battery staple"
)

// vfAssembly is the assembled process-wide state.
type vfAssembly struct {
	dir      string
	web      *webAPI
	patterns []vfPattern
	err      error
}

// vfPattern is one registered mux pattern.
type vfPattern struct {
	Pattern string
	// Loc is the source location of the registering call.
	Loc string
}

var (
	vfAsmOnce sync.Once
	vfAsm     *vfAssembly
)

// vfAssemble builds (once per process) the post-install mux the way a fresh
// installation ends up with it: the web API is created in first-run mode (which
// registers the install handlers), then the installation is completed
// (firstRun=false), the control handlers and every module's handlers are
// registered.
func vfAssemble() (a *vfAssembly) {
	vfAsmOnce.Do(func() {
		vfAsm = &vfAssembly{}
		vfAsm.err = vfAsm.build()
	})

	return vfAsm
}

func (a *vfAssembly) build() (err error) {
	log.SetOutput(io.Discard)
	logger := slogutil.NewDiscardLogger()
	ctx := context.Background()

	if d := os.Getenv("VERIF_C14_CHILD"); d != "" {
		// a traced child works in the directory its parent watches
		a.dir = d
	} else {
		a.dir, err = os.MkdirTemp("", "vfhome")
		if err != nil {
			return fmt.Errorf("VERIF-INCONCLUSIVE mkdir: %w", err)
		}
	}

	globalContext.workDir = a.dir
	initConfigFilename(options{})
	globalContext.mux = http.NewServeMux()
	globalContext.firstRun = true

	hash, err := bcrypt.GenerateFromPassword([]byte(vfAdminPass), bcrypt.MinCost)
	if err != nil {
		return fmt.Errorf("VERIF-INCONCLUSIVE bcrypt: %w", err)
	}
	config.Users = []webUser{
		{Name: vfAdminUser, PasswordHash: string(hash)},
		// accounts nobody can log in to: no hash, a plaintext "hash", a hash
		// of another scheme, a truncated bcrypt hash
		{Name: "nohash", PasswordHash: ""},
		{Name: "plaintext", PasswordHash: "letmein"},
		{Name: "md5crypt", PasswordHash: "$1$saltsalt$qjXMvbEw8oaL.CzflDtaK/"},
		{Name: "shortbcrypt", PasswordHash: string(hash[:20])},
	}
	config.AuthAttempts = 5
	config.AuthBlockMin = 15
	config.HTTPConfig.Address = netip.MustParseAddrPort("127.0.0.1:0")
	config.DNS.BindHosts = []netip.Addr{netip.MustParseAddr("127.0.0.1")}
	config.DNS.Port = 0
	config.DNS.UpstreamDNS = []string{"127.0.0.1:5"}
	config.DNS.BootstrapDNS = []string{"127.0.0.1:5"}
	config.DNS.HostsFileEnabled = false
	config.Clients.Sources.ARP = false
	config.Clients.Sources.HostsFile = false
	config.Filters = nil
	config.Filtering.FiltersUpdateIntervalHours = 0

	filtering.InitModule()

	sigHdlr := newSignalHandler(make(chan os.Signal, 1), func(_ context.Context) {})
	err = initContextClients(ctx, logger, sigHdlr)
	if err != nil {
		return fmt.Errorf("assembly: initContextClients: %w", err)
	}

	tlsMgr, err := newTLSManager(ctx, &tlsManagerConfig{
		logger:         logger,
		configModified: onConfigModified,
		tlsSettings:    config.TLS,
		servePlainDNS:  config.DNS.ServePlainDNS,
	})
	if err != nil {
		return fmt.Errorf("assembly: newTLSManager: %w", err)
	}
	globalContext.tls = tlsMgr

	err = setupDNSFilteringConf(ctx, logger, config.Filtering, tlsMgr)
	if err != nil {
		return fmt.Errorf("assembly: setupDNSFilteringConf: %w", err)
	}

	err = os.MkdirAll(globalContext.getDataDir(), 0o755)
	if err != nil {
		return fmt.Errorf("VERIF-INCONCLUSIVE mkdir data: %w", err)
	}

	globalContext.auth, err = initUsers()
	if err != nil {
		return fmt.Errorf("assembly: initUsers: %w", err)
	}

	clientFS := fstest.MapFS{
		"build/static/index.html":    {Data: []byte("<html>dashboard</html>")},
		"build/static/login.html":    {Data: []byte("<html>login</html>")},
		"build/static/install.html":  {Data: []byte("<html>install</html>")},
		"build/static/assets/app.js": {Data: []byte("console.log('asset')")},
		"build/static/secret.txt":    {Data: []byte("not an asset")},
	}

	// first-run web API: registers "/", /install.html and the install handlers
	a.web, err = initWeb(ctx, options{}, clientFS, nil, logger, tlsMgr, false)
	if err != nil {
		return fmt.Errorf("assembly: initWeb: %w", err)
	}
	globalContext.web = a.web
	tlsMgr.setWebAPI(a.web)

	// the installation completes: see handleInstallConfigure
	globalContext.firstRun = false
	registerControlHandlers(a.web)

	statsDir, querylogDir, err := checkStatsAndQuerylogDirs(&globalContext, config)
	if err != nil {
		return fmt.Errorf("assembly: checkStatsAndQuerylogDirs: %w", err)
	}

	err = initDNS(logger, tlsMgr, statsDir, querylogDir)
	if err != nil {
		return fmt.Errorf("assembly: initDNS: %w", err)
	}

	tlsMgr.registerWebHandlers()

	// the body of startDNSServer minus dnsServer.Start (no listening sockets)
	globalContext.filters.EnableFilters(false)
	err = globalContext.clients.Start(ctx)
	if err != nil {
		return fmt.Errorf("assembly: clients.Start: %w", err)
	}
	globalContext.filters.Start()
	globalContext.stats.Start()
	err = globalContext.queryLog.Start(ctx)
	if err != nil {
		return fmt.Errorf("assembly: queryLog.Start: %w", err)
	}

	err = config.write(tlsMgr)
	if err != nil {
		return fmt.Errorf("assembly: config.write: %w", err)
	}

	a.patterns = vfMuxPatterns(globalContext.mux)
	if len(a.patterns) < 50 {
		return fmt.Errorf("VERIF-INCONCLUSIVE only %d patterns read from the mux", len(a.patterns))
	}

	return nil
}

// vfHandler is the handler the production HTTP servers serve: the mux behind
// the request-body limiter.
func vfHandler() (h http.Handler) {
	return withMiddlewares(globalContext.mux, limitRequestBody)
}

// vfMuxPatterns reads the registered patterns (and the source location of
// their registering call) out of a ServeMux by read-only reflection.
func vfMuxPatterns(mux *http.ServeMux) (ps []vfPattern) {
	seen := map[string]bool{}
	v := reflect.ValueOf(mux).Elem()
	idx := v.FieldByName("index")
	add := func(pv reflect.Value) {
		// pv is a *pattern
		e := pv.Elem()
		str := e.FieldByName("str").String()
		loc := e.FieldByName("loc").String()
		if !seen[str] {
			seen[str] = true
			ps = append(ps, vfPattern{Pattern: str, Loc: loc})
		}
	}
	segs := idx.FieldByName("segments")
	segs = reflect.NewAt(segs.Type(), unsafe.Pointer(segs.UnsafeAddr())).Elem()
	iter := segs.MapRange()
	for iter.Next() {
		sl := iter.Value()
		for i := 0; i < sl.Len(); i++ {
			add(sl.Index(i))
		}
	}
	multis := idx.FieldByName("multis")
	multis = reflect.NewAt(multis.Type(), unsafe.Pointer(multis.UnsafeAddr())).Elem()
	for i := 0; i < multis.Len(); i++ {
		add(multis.Index(i))
	}
	sort.Slice(ps, func(i, j int) bool { return ps[i].Pattern < ps[j].Pattern })

	return ps
}

// vfMuxSelfTest registers three known patterns on a scratch mux and reads them
// back; it guards the reflection against a changed standard library.
func vfMuxSelfTest() (err error) {
	m := http.NewServeMux()
	h := func(http.ResponseWriter, *http.Request) {}
	m.HandleFunc("/vf/a", h)
	m.HandleFunc("/vf/b/", h)
	m.HandleFunc("/", h)
	got := vfMuxPatterns(m)
	want := []string{"/", "/vf/a", "/vf/b/"}
	if len(got) != len(want) {
		return fmt.Errorf("read %d patterns back, want %d", len(got), len(want))
	}
	for i := range want {
		if got[i].Pattern != want[i] {
			return fmt.Errorf("pattern %d read back as %q, want %q", i, got[i].Pattern, want[i])
		}
	}

	return nil
}

// vfShiftSessions moves every stored session expiry back by d (DESIGN 3.4).
func vfShiftSessions(a *Auth, d time.Duration) {
	a.lock.Lock()
	defer a.lock.Unlock()

	for _, s := range a.sessions {
		s.expire -= uint32(d / time.Second)
	}
}

var _ = filepath.Join

// vfWeakUsers are the configured accounts without a usable password hash.
var vfWeakUsers = []string{"nohash", "plaintext", "md5crypt", "shortbcrypt"}

// vfRestartAuth closes the authentication module and creates it again from
// the same session database and users, as a restart of the program does.
func vfRestartAuth() (err error) {
	old := globalContext.auth
	users := old.usersList()
	old.Close()
	config.Users = users
	globalContext.auth, err = initUsers()

	return err
}
