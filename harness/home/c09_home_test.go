//go:build verif

package home

// C09 (home part): "counts survive clean restarts" at the level of the whole
// program.  The real first-run installation starts the real DNS server on a
// loopback port; queries are sent to it over UDP and counted; the settings of
// the DNS server are changed through POST /control/dns_config, which restarts
// the server and, in some histories, fails to (another program takes the port
// in the moment the server has let it go, which leaves the server stopped);
// then the production cleanup() runs -- the clean shutdown -- and the totals in
// the statistics database the next start reads are compared with the totals
// GET /control/stats reported last.

import (
	"context"
	"encoding/json"
	"fmt"
	"net"
	"net/http"
	"net/http/httptest"
	"os"
	"path/filepath"
	"strings"
	"sync/atomic"
	"testing"
	"time"

	"github.com/AdguardTeam/AdGuardHome/internal/stats"
	"github.com/AdguardTeam/AdGuardHome/internal/vfkit"
	"github.com/AdguardTeam/golibs/logutil/slogutil"
	"github.com/miekg/dns"
	"pgregory.net/rapid"
)

// vfC09Totals reads num_dns_queries and num_blocked_filtering out of a GET
// /control/stats answer.
func vfC09Totals(body []byte) (total, blocked uint64, err error) {
	var resp struct {
		Total   uint64 `json:"num_dns_queries"`
		Blocked uint64 `json:"num_blocked_filtering"`
	}
	err = json.Unmarshal(body, &resp)

	return resp.Total, resp.Blocked, err
}

func TestVFC09HomeShutdown(t *testing.T) { vfHomeShutdown(t, "C09") }

// TestVFC07HomeShutdown: the same histories judged for the query log (C07,
// operation "restart"): every query GET /control/querylog listed before the
// clean shutdown is in the files the next start reads.
func TestVFC07HomeShutdown(t *testing.T) { vfHomeShutdown(t, "C07") }

// vfHomeShutdown runs the histories for the property prop.
func vfHomeShutdown(t *testing.T, prop string) {
	vfkit.Begin(t)
	cov := vfkit.For(prop)
	// the upstream server of the installation
	upc, err := net.ListenPacket("udp", "127.0.0.1:0")
	if err != nil {
		t.Fatalf("VERIF-INCONCLUSIVE upstream socket: %v", err)
	}
	ups := &dns.Server{PacketConn: upc, Handler: dns.HandlerFunc(func(rw dns.ResponseWriter, q *dns.Msg) {
		r := (&dns.Msg{}).SetReply(q)
		if len(q.Question) == 1 && q.Question[0].Qtype == dns.TypeA {
			r.Answer = []dns.RR{&dns.A{Hdr: dns.RR_Header{Name: q.Question[0].Name, Rrtype: dns.TypeA, Class: dns.ClassINET, Ttl: 60}, A: net.IPv4(192, 0, 2, 99)}}
		}
		_ = rw.WriteMsg(r)
	})}
	go func() { _ = ups.ActivateAndServe() }()
	defer func() { _ = ups.Shutdown() }()

	rapid.Check(t, func(t *rapid.T) {
		k1 := rapid.IntRange(1, 12).Draw(t, "queries_before")
		reconf := rapid.SampledFrom([]string{"none", "restart_ok", "restart_fails", "restart_fails"}).Draw(t, "dns_config")
		k2 := rapid.IntRange(0, 8).Draw(t, "queries_after")

		ctx := context.Background()
		config.Filtering.UserRules = []string{"||blocked.vf.test^"}
		h, webPort, dnsPort, dir := vfFirstRun(t)
		defer os.RemoveAll(dir)
		config.DNS.UpstreamDNS = []string{upc.LocalAddr().String()}

		do := func(method, path, body string) (rec *httptest.ResponseRecorder) {
			var r *http.Request
			if body != "" {
				r = httptest.NewRequest(method, "http://agh.vf.test"+path, strings.NewReader(body))
				r.Header.Set("Content-Type", "application/json")
			} else {
				r = httptest.NewRequest(method, "http://agh.vf.test"+path, nil)
			}
			r.RemoteAddr = "192.0.2.250:1"
			r.SetBasicAuth(vfAdminUser, vfAdminPass)
			rec = httptest.NewRecorder()
			h.ServeHTTP(rec, r)

			return rec
		}

		body, _ := json.Marshal(map[string]any{
			"web":      map[string]any{"ip": "127.0.0.1", "port": webPort, "status": "", "can_autofix": false},
			"dns":      map[string]any{"ip": "127.0.0.1", "port": dnsPort, "status": "", "can_autofix": false},
			"username": vfAdminUser, "password": vfAdminPass,
		})
		if rec := do(http.MethodPost, "/control/install/configure", string(body)); rec.Code != http.StatusOK {
			t.Fatalf("VERIF-INCONCLUSIVE POST /control/install/configure: %d %s", rec.Code, rec.Body.String())
		}
		cleaned := false
		defer func() {
			if !cleaned {
				cleanup(ctx)
			}
		}()

		var trace []string
		addr := fmt.Sprintf("127.0.0.1:%d", dnsPort)
		ask := func(n int) (answered int) {
			cl := &dns.Client{Net: "udp", Timeout: 2 * time.Second}
			for i := 0; i < n; i++ {
				m := &dns.Msg{}
				m.SetQuestion(fmt.Sprintf("h%d.%s.vf.test.", i, []string{"blocked", "free"}[i%2]), dns.TypeA)
				if resp, _, xerr := cl.Exchange(m, addr); xerr == nil && resp != nil {
					answered++
				}
			}

			return answered
		}

		a1 := ask(k1)
		trace = append(trace, fmt.Sprintf("%d queries over UDP, %d answered", k1, a1))
		if a1 == 0 {
			t.Fatalf("VERIF-INCONCLUSIVE the DNS server on %s answered none of %d queries", addr, k1)
		}

		serverUp := true
		switch reconf {
		case "restart_ok":
			rec := do(http.MethodPost, "/control/dns_config", `{"cache_size": 8192}`)
			trace = append(trace, fmt.Sprintf("POST /control/dns_config (restarts the DNS server) -> %d", rec.Code))
			if rec.Code != http.StatusOK {
				t.Fatalf("VERIF-INCONCLUSIVE dns_config: %d %s", rec.Code, rec.Body.String())
			}
		case "restart_fails":
			// another program takes the UDP port in the moment the server has
			// let it go
			var stop atomic.Bool
			taken := make(chan net.PacketConn, 1)
			go func() {
				for !stop.Load() {
					if pc, lerr := net.ListenPacket("udp", addr); lerr == nil {
						taken <- pc

						return
					}
					time.Sleep(time.Millisecond)
				}
				taken <- nil
			}()
			rec := do(http.MethodPost, "/control/dns_config", `{"cache_size": 16384}`)
			stop.Store(true)
			pc := <-taken
			if pc != nil {
				defer pc.Close()
			}
			trace = append(trace, fmt.Sprintf("POST /control/dns_config while another program takes port %d -> %d", dnsPort, rec.Code))
			if rec.Code == http.StatusOK {
				// the port was not taken in time: an ordinary restart
				cov.Class("home:port_not_taken_in_time")
				reconf = "restart_ok"
				if pc != nil {
					_ = pc.Close()
				}
			} else {
				serverUp = false
			}
		}
		if serverUp && k2 > 0 {
			a2 := ask(k2)
			trace = append(trace, fmt.Sprintf("%d more queries, %d answered", k2, a2))
		}

		if prop == "C07" {
			rec := do(http.MethodGet, "/control/querylog?limit=500", "")
			var listed struct {
				Data []struct {
					Question struct {
						Name string `json:"name"`
					} `json:"question"`
				} `json:"data"`
			}
			if jerr := json.Unmarshal(rec.Body.Bytes(), &listed); rec.Code != http.StatusOK || jerr != nil || len(listed.Data) == 0 {
				t.Fatalf("VERIF-INCONCLUSIVE GET /control/querylog before the shutdown: %d %v %d entries\nhistory: %v", rec.Code, jerr, len(listed.Data), trace)
			}
			want := map[string]int{}
			for _, e := range listed.Data {
				want[e.Question.Name]++
			}
			trace = append(trace, fmt.Sprintf("GET /control/querylog: %d entries", len(listed.Data)))
			qlDir := globalContext.getDataDir()
			cleanup(ctx)
			cleaned = true
			trace = append(trace, "clean shutdown")

			got := map[string]int{}
			stored := 0
			for _, name := range []string{"querylog.json.1", "querylog.json"} {
				raw, _ := os.ReadFile(filepath.Join(qlDir, name))
				for _, line := range strings.Split(string(raw), "\n") {
					var e struct {
						QH string `json:"QH"`
					}
					if line == "" || json.Unmarshal([]byte(line), &e) != nil {
						continue
					}
					got[e.QH]++
					stored++
				}
			}
			cov.Eval()
			cov.Class("home:shutdown_after:" + reconf)
			cov.Nontrivial(fmt.Sprintf("home|%d|%s|%d", k1, reconf, k2))
			if cov.WantSample("home_shutdown/" + reconf) {
				cov.Sample("home_shutdown/"+reconf, map[string]any{"history": trace, "listed_before": len(listed.Data), "stored_after": stored})
			}
			for name, n := range want {
				if got[name] != n {
					t.Fatalf("before the clean shutdown GET /control/querylog listed %d entries, %d of them for %q; the files the next start reads hold %d entries, %d for that name\nhistory: %v",
						len(listed.Data), n, name, stored, got[name], trace)
				}
			}

			return
		}

		rec := do(http.MethodGet, "/control/stats", "")
		if rec.Code != http.StatusOK {
			t.Fatalf("VERIF-INCONCLUSIVE GET /control/stats: %d", rec.Code)
		}
		wantTotal, wantBlocked, jerr := vfC09Totals(rec.Body.Bytes())
		if jerr != nil || wantTotal == 0 {
			t.Fatalf("VERIF-INCONCLUSIVE GET /control/stats before the shutdown: total %d (%v)\nhistory: %v\n%s", wantTotal, jerr, trace, rec.Body.String())
		}
		trace = append(trace, fmt.Sprintf("GET /control/stats: %d queries, %d blocked", wantTotal, wantBlocked))

		dbPath := filepath.Join(globalContext.getDataDir(), "stats.db")
		cleanup(ctx)
		cleaned = true
		trace = append(trace, "clean shutdown")

		// what the next start reads: a copy, so that a database the shutdown
		// has left open cannot block the reader
		raw, rerr := os.ReadFile(dbPath)
		if rerr != nil {
			t.Fatalf("VERIF-INCONCLUSIVE reading %s: %v", dbPath, rerr)
		}
		cp := filepath.Join(dir, "stats-next-start.db")
		if werr := os.WriteFile(cp, raw, 0o644); werr != nil {
			t.Fatalf("VERIF-INCONCLUSIVE copying the database: %v", werr)
		}
		handlers := map[string]http.HandlerFunc{}
		next, nerr := stats.New(stats.Config{
			Logger: slogutil.NewDiscardLogger(), Filename: cp, Limit: 24 * time.Hour, Enabled: true,
			ConfigModified:    func() {},
			ShouldCountClient: func([]string) bool { return true },
			HTTPRegister:      func(method, url string, hf http.HandlerFunc) { handlers[method+" "+url] = hf },
		})
		if nerr != nil {
			t.Fatalf("VERIF-INCONCLUSIVE opening the database of the next start: %v", nerr)
		}
		next.Start()
		get := handlers["GET /control/stats"]
		if get == nil {
			t.Fatalf("VERIF-INCONCLUSIVE no handler for GET /control/stats")
		}
		rec = httptest.NewRecorder()
		get(rec, httptest.NewRequest(http.MethodGet, "/control/stats", nil))
		gotTotal, gotBlocked, jerr := vfC09Totals(rec.Body.Bytes())
		_ = next.Close()
		if jerr != nil {
			t.Fatalf("VERIF-INCONCLUSIVE GET /control/stats after the restart: %v: %s", jerr, rec.Body.String())
		}

		cov.Eval()
		cov.Class("home:shutdown_after:" + reconf)
		cov.Nontrivial(fmt.Sprintf("home|%d|%s|%d", k1, reconf, k2))
		if cov.WantSample("home_shutdown/" + reconf) {
			cov.Sample("home_shutdown/"+reconf, map[string]any{"history": trace, "total_before": wantTotal, "total_after_restart": gotTotal})
		}
		if gotTotal != wantTotal || gotBlocked != wantBlocked {
			t.Fatalf("before the clean shutdown GET /control/stats reported %d queries (%d blocked); the database the next start reads holds %d (%d blocked)\nhistory: %v",
				wantTotal, wantBlocked, gotTotal, gotBlocked, trace)
		}
	})
}
