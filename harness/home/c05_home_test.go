//go:build verif

package home

// C05 (home part): the modules wired the way home wires them.  The admin API
// changes the filtering settings while the configuration is being saved by
// somebody else -- which the program does from background goroutines (the
// worker that switches protection back on after a pause, the filter refresh)
// -- and while read-only endpoints and the request path read them.  The
// binary is built with the race detector; a reported race, a panic, a refused
// call or a stall is a violation.  Admin calls are serialised with each other,
// as the control lock does in production.

import (
	"encoding/json"
	"fmt"
	"net/http"
	"os"
	"sync"
	"sync/atomic"
	"testing"
	"time"

	"github.com/AdguardTeam/AdGuardHome/internal/vfkit"
	"github.com/miekg/dns"
	"pgregory.net/rapid"
)

var vfC05H = vfkit.For("C05")

// vfC05HomeOp is one admin call of a program.
type vfC05HomeOp struct {
	Kind   string `json:"kind"`
	Method string `json:"method"`
	Path   string `json:"path"`
	Body   string `json:"body"`
}

func vfC05DrawHomeOp(t *rapid.T, label string, i int) (op vfC05HomeOp) {
	js := func(v any) string { b, _ := json.Marshal(v); return string(b) }
	on := rapid.Bool().Draw(t, label+"_on")
	op.Kind = rapid.SampledFrom([]string{
		"safebrowsing", "parental", "safesearch", "filtering_config", "set_rules", "rewrite_add", "rewrite_delete", "services", "services_set",
	}).Draw(t, label+"_kind")
	op.Method = http.MethodPost
	switch op.Kind {
	case "safebrowsing":
		op.Path = "/control/safebrowsing/" + map[bool]string{true: "enable", false: "disable"}[on]
	case "parental":
		op.Path = "/control/parental/" + map[bool]string{true: "enable", false: "disable"}[on]
	case "safesearch":
		op.Method, op.Path = http.MethodPut, "/control/safesearch/settings"
		op.Body = js(map[string]any{"enabled": on, "bing": true, "duckduckgo": on, "ecosia": true, "google": !on, "pixabay": true, "yandex": true, "youtube": on})
	case "filtering_config":
		op.Path = "/control/filtering/config"
		op.Body = js(map[string]any{"enabled": on, "interval": rapid.SampledFrom([]int{1, 12, 24, 72}).Draw(t, label+"_interval")})
	case "set_rules":
		op.Path = "/control/filtering/set_rules"
		op.Body = js(map[string]any{"rules": []string{fmt.Sprintf("||r%d.vf.test^", i), "@@||ok.vf.test^"}[:1+i%2]})
	case "rewrite_add":
		op.Path = "/control/rewrite/add"
		op.Body = js(map[string]any{"domain": fmt.Sprintf("rw%d.vf.test", i%3), "answer": "192.0.2.77"})
	case "rewrite_delete":
		op.Path = "/control/rewrite/delete"
		op.Body = js(map[string]any{"domain": fmt.Sprintf("rw%d.vf.test", i%3), "answer": "192.0.2.77"})
	case "services_set":
		// the older call, which takes the bare list
		op.Path = "/control/blocked_services/set"
		op.Body = js([]string{"9gag", "amazon", "cloudflare", "dailymotion", "discord"}[:i%6%5+map[bool]int{true: 1, false: 0}[on]])
	default:
		op.Method, op.Path = http.MethodPut, "/control/blocked_services/update"
		ids := []string{}
		if on {
			ids = []string{"9gag"}
		}
		op.Body = js(map[string]any{"ids": ids, "schedule": map[string]any{"time_zone": "UTC"}})
	}

	return op
}

func TestVFC05HomePrograms(t *testing.T) {
	vfkit.Begin(t)
	a := vfAssemble()
	if a.err != nil {
		t.Fatalf("assembly failed: %v", a.err)
	}
	h := vfHandler()

	rapid.Check(t, func(t *rapid.T) {
		nOps := rapid.IntRange(8, 30).Draw(t, "n_admin_ops")
		ops := make([]vfC05HomeOp, nOps)
		for i := range ops {
			ops[i] = vfC05DrawHomeOp(t, fmt.Sprintf("op%d", i), i)
		}
		nSavers := rapid.IntRange(1, 2).Draw(t, "background_savers")
		nSaves := rapid.IntRange(5, 25).Draw(t, "saves_each")
		nReads := rapid.IntRange(0, 30).Draw(t, "reads")
		nQueries := rapid.IntRange(0, 60).Draw(t, "host_checks")

		// the program is the replay unit: a race ends the process
		b, _ := json.MarshalIndent(map[string]any{"admin": ops, "savers": nSavers, "saves_each": nSaves, "reads": nReads, "host_checks": nQueries}, "", " ")
		if werr := os.WriteFile("program.json", b, 0o644); werr != nil {
			t.Fatalf("VERIF-INCONCLUSIVE writing program.json: %v", werr)
		}

		var progress atomic.Int64
		var wg sync.WaitGroup
		var mu sync.Mutex
		var failures []string
		fail := func(format string, args ...any) {
			mu.Lock()
			failures = append(failures, fmt.Sprintf(format, args...))
			mu.Unlock()
		}
		guard := func(what string, f func()) {
			defer wg.Done()
			defer func() {
				if p := recover(); p != nil {
					fail("panic in %s: %v", what, p)
				}
			}()
			f()
		}

		wg.Add(1)
		go guard("admin calls", func() {
			for _, op := range ops {
				rec := vfC04Do(h, op.Method, op.Path, op.Body)
				if rec.Code != http.StatusOK {
					fail("%s %s %s: status %d %s", op.Method, op.Path, op.Body, rec.Code, rec.Body.String())
				}
				progress.Add(1)
			}
		})
		for s := 0; s < nSavers; s++ {
			wg.Add(1)
			go guard("background configuration save", func() {
				for i := 0; i < nSaves; i++ {
					// what the worker that ends a protection pause and the
					// filter refresh do when they are done
					onConfigModified()
					progress.Add(1)
				}
			})
		}
		wg.Add(1)
		go guard("read-only endpoints", func() {
			paths := []string{"/control/filtering/status", "/control/safebrowsing/status", "/control/parental/status", "/control/safesearch/status",
				"/control/rewrite/list", "/control/blocked_services/get", "/control/status"}
			for i := 0; i < nReads; i++ {
				p := paths[i%len(paths)]
				if rec := vfC04Do(h, http.MethodGet, p, ""); rec.Code != http.StatusOK {
					fail("GET %s: status %d %s", p, rec.Code, rec.Body.String())
				}
				progress.Add(1)
			}
		})
		wg.Add(1)
		go guard("request path", func() {
			for i := 0; i < nQueries; i++ {
				setts := globalContext.filters.Settings()
				host := []string{"r1.vf.test", "rw0.vf.test", "9gag.com", "free.vf.test"}[i%4]
				if _, err := globalContext.filters.CheckHost(host, dns.TypeA, setts); err != nil {
					fail("CheckHost(%q): %v", host, err)
				}
				progress.Add(1)
			}
		})

		done := make(chan struct{})
		go func() { wg.Wait(); close(done) }()
		if !vfkit.WaitProgress(done, &progress, 60*time.Second) {
			t.Fatalf("stall: no admin call, configuration save, read or host check of the program finished for 60 s")
		}
		if len(failures) > 0 {
			t.Fatalf("%d failures, first: %s", len(failures), failures[0])
		}

		vfC05H.Eval()
		vfC05H.Class("home:program")
		for _, op := range ops {
			vfC05H.Class("home:op:" + op.Kind)
		}
		vfC05H.Nontrivial(fmt.Sprintf("home|%d|%d|%d|%d|%d", nOps, nSavers, nSaves, nReads, nQueries))
		if vfC05H.WantSample("home_program") {
			vfC05H.Sample("home_program", map[string]any{"admin_ops": nOps, "background_savers": nSavers, "saves_each": nSaves, "reads": nReads, "host_checks": nQueries})
		}
	})
}
