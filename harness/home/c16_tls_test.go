//go:build verif

package home

// C16, last clause, at the place where the setting lives: strict server-name
// checking is configured in the configuration file only (the API does not show
// it), so saving the TLS settings through POST /control/tls/configure must
// leave it as it was -- in the running configuration, in what the DNS server
// is given, and in the file written back.

import (
	"bytes"
	"crypto/ecdsa"
	"crypto/elliptic"
	"crypto/rand"
	"crypto/x509"
	"crypto/x509/pkix"
	"encoding/base64"
	"encoding/json"
	"encoding/pem"
	"fmt"
	"math/big"
	"net/http"
	"net/http/httptest"
	"net/netip"
	"os"
	"testing"
	"time"

	"github.com/AdguardTeam/AdGuardHome/internal/vfkit"
	"gopkg.in/yaml.v3"
	"pgregory.net/rapid"
)

var vfC16H = vfkit.For("C16")

func vfC16PEMPair(name string) (certPEM, keyPEM []byte, err error) {
	key, err := ecdsa.GenerateKey(elliptic.P256(), rand.Reader)
	if err != nil {
		return nil, nil, err
	}
	tmpl := &x509.Certificate{
		SerialNumber: big.NewInt(7), Subject: pkix.Name{CommonName: name},
		NotBefore: time.Now().Add(-time.Hour), NotAfter: time.Now().Add(72 * time.Hour),
		KeyUsage: x509.KeyUsageDigitalSignature | x509.KeyUsageCertSign, ExtKeyUsage: []x509.ExtKeyUsage{x509.ExtKeyUsageServerAuth},
		BasicConstraintsValid: true, IsCA: true, DNSNames: []string{name, "*." + name},
	}
	der, err := x509.CreateCertificate(rand.Reader, tmpl, tmpl, &key.PublicKey, key)
	if err != nil {
		return nil, nil, err
	}
	kb, err := x509.MarshalPKCS8PrivateKey(key)
	if err != nil {
		return nil, nil, err
	}

	return pem.EncodeToMemory(&pem.Block{Type: "CERTIFICATE", Bytes: der}),
		pem.EncodeToMemory(&pem.Block{Type: "PRIVATE KEY", Bytes: kb}), nil
}

func TestVFC16StrictSNISurvivesTLSSave(t *testing.T) {
	vfkit.Begin(t)
	a := vfAssemble()
	if a.err != nil {
		t.Fatalf("assembly failed: %v", a.err)
	}
	certPEM, keyPEM, err := vfC16PEMPair("dns.vf.test")
	if err != nil {
		t.Fatalf("VERIF-INCONCLUSIVE certificate: %v", err)
	}
	m := globalContext.tls

	rapid.Check(t, func(t *rapid.T) {
		strict := rapid.Bool().Draw(t, "strict_sni_check")
		func() {
			m.mu.Lock()
			defer m.mu.Unlock()
			m.conf.StrictSNICheck = strict
		}()

		n := rapid.IntRange(1, 3).Draw(t, "n_saves")
		for i := 0; i < n; i++ {
			label := fmt.Sprintf("save%d", i)
			body := map[string]any{
				"enabled":     false,
				"server_name": rapid.SampledFrom([]string{"dns.vf.test", "other.vf.test", ""}).Draw(t, label+"_server_name"),
				"force_https": false,
			}
			withCert := rapid.Bool().Draw(t, label+"_with_cert")
			if withCert {
				body["certificate_chain"] = base64.StdEncoding.EncodeToString(certPEM)
				body["private_key"] = base64.StdEncoding.EncodeToString(keyPEM)
			}
			if rapid.Bool().Draw(t, label+"_serve_plain") {
				body["serve_plain_dns"] = true
			}
			b, _ := json.Marshal(body)
			rec := httptest.NewRecorder()
			m.handleTLSConfigure(rec, httptest.NewRequest(http.MethodPost, "/control/tls/configure", bytes.NewReader(b)))
			vfC16H.Eval()
			if rec.Code != http.StatusOK {
				vfC16H.Class("tls_save:rejected")

				continue
			}
			vfC16H.Class(fmt.Sprintf("tls_save:accepted:strict=%t", strict))
			vfC16H.Nontrivial(fmt.Sprintf("tls_save|strict=%t|%s", strict, b[:min(len(b), 60)]))

			var got bool
			func() {
				m.mu.Lock()
				defer m.mu.Unlock()
				got = m.conf.StrictSNICheck
			}()
			if got != strict {
				t.Fatalf("after POST /control/tls/configure %s strict_sni_check is %t in the running configuration, the file said %t", b[:min(len(b), 120)], got, strict)
			}

			// what the DNS server would be given with encryption on
			conf := m.config()
			conf.Enabled = true
			conf.CertificateChainData, conf.PrivateKeyData = certPEM, keyPEM
			dnsTLS, derr := newDNSTLSConfig(conf, []netip.Addr{netip.MustParseAddr("127.0.0.1")})
			if derr != nil {
				t.Fatalf("VERIF-INCONCLUSIVE newDNSTLSConfig: %v", derr)
			}
			if dnsTLS.StrictSNICheck != strict {
				t.Fatalf("after the save the DNS server is given StrictSNICheck=%t, the file said %t", dnsTLS.StrictSNICheck, strict)
			}

			// what is written back
			if werr := config.write(m); werr != nil {
				t.Fatalf("VERIF-INCONCLUSIVE config.write: %v", werr)
			}
			raw, rerr := os.ReadFile(configFilePath())
			if rerr != nil {
				t.Fatalf("VERIF-INCONCLUSIVE reading the configuration: %v", rerr)
			}
			var doc struct {
				TLS struct {
					Strict *bool `yaml:"strict_sni_check"`
				} `yaml:"tls"`
			}
			if yerr := yaml.Unmarshal(raw, &doc); yerr != nil || doc.TLS.Strict == nil {
				t.Fatalf("VERIF-INCONCLUSIVE the written configuration has no tls.strict_sni_check (%v)", yerr)
			}
			if *doc.TLS.Strict != strict {
				t.Fatalf("after the save the configuration file says strict_sni_check: %t, it said %t before", *doc.TLS.Strict, strict)
			}
			if vfC16H.WantSample("tls_save") {
				vfC16H.Sample("tls_save", map[string]any{"strict_before": strict, "request": string(b[:min(len(b), 100)]), "strict_after": got})
			}
		}
	})
}
