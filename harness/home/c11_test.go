//go:build verif

package home

// C11: once a user exists every admin endpoint runs its handler only with a
// valid session cookie or correct basic credentials; anything else gets 403 or
// the login redirect without side effect; state-changing endpoints accept only
// their method and a JSON content type; only the login call, login page,
// assets, mobileconfig generators and the DoH resolver are public.

import (
	"crypto/sha256"
	"encoding/hex"
	"fmt"
	"go/ast"
	"go/build"
	"go/parser"
	"go/token"
	"io/fs"
	"net/http"
	"net/http/httptest"
	"os"
	"path"
	"path/filepath"
	"regexp"
	"strconv"
	"strings"
	"testing"
	"time"

	"github.com/AdguardTeam/AdGuardHome/internal/filtering"
	"github.com/AdguardTeam/AdGuardHome/internal/vfkit"
	"pgregory.net/rapid"
)

var vfC11 = vfkit.For("C11")

// vfPublic is the public set taken from the statement.
func vfPublic(p string) (ok bool) {
	switch {
	case p == "/control/login", p == "/dns-query", strings.HasPrefix(p, "/dns-query/"):
		return true
	case strings.HasPrefix(p, "/login."):
		return !strings.Contains(p[1:], "/")
	case strings.HasPrefix(p, "/assets/"):
		// one level below /assets/, as the statement's "static assets"
		return !strings.Contains(p[len("/assets/"):], "/")
	case strings.HasPrefix(p, "/apple/") && strings.HasSuffix(p, ".mobileconfig"):
		return true
	}

	return false
}

// vfInstallRoute reports routes that exist only for the first run.
func vfInstallRoute(p string) (ok bool) {
	return p == "/install.html" || strings.HasPrefix(p, "/control/install/")
}

// vfSnapshot is the cheap global side-effect sentinel.
type vfSnapshot struct {
	ConfSum   string
	Sessions  int
	Clients   int
	Filters   int
	UserRules int
	Rewrites  int
}

func vfTakeSnapshot(a *vfAssembly) (s vfSnapshot) {
	b, _ := os.ReadFile(configFilePath())
	sum := sha256.Sum256(b)
	s.ConfSum = hex.EncodeToString(sum[:8])
	func() {
		globalContext.auth.lock.Lock()
		defer globalContext.auth.lock.Unlock()
		s.Sessions = len(globalContext.auth.sessions)
	}()
	s.Clients = globalContext.clients.storage.Size()
	fc := &vfFilteringConf{}
	fc.read()
	s.Filters, s.UserRules, s.Rewrites = fc.filters, fc.rules, fc.rewrites

	return s
}

// vfNewSession creates a real session through the production code and returns
// the cookie value; expired sessions get their stored expiry moved into the past.
func vfNewSession(expired bool) (val string, err error) {
	c, err := globalContext.auth.newCookie(loginJSON{Name: vfAdminUser, Password: vfAdminPass}, "192.0.2.1")
	if err != nil {
		return "", err
	}
	if expired {
		globalContext.auth.lock.Lock()
		s := globalContext.auth.sessions[c.Value]
		if s != nil {
			s.expire = uint32(time.Now().Unix()) - 10
		}
		globalContext.auth.lock.Unlock()
		if s == nil {
			return "", fmt.Errorf("session not found in table")
		}
	}

	return c.Value, nil
}

// vfCredKinds are the credential classes that must NOT authenticate.
var vfBadCreds = []string{"none", "unknown_cookie", "malformed_cookie", "empty_cookie", "expired_session", "wrong_basic", "unknown_user_basic", "basic_empty_pass", "logged_out_session",
	"basic_account_without_usable_hash"}

// vfWeakCredSeq makes successive uses of the weak accounts differ.
var vfWeakCredSeq int

func vfApplyBadCred(r *http.Request, kind string, expiredCookie, loggedOutCookie string) {
	switch kind {
	case "none":
	case "unknown_cookie":
		r.AddCookie(&http.Cookie{Name: sessionCookieName, Value: strings.Repeat("ab", 16)})
	case "malformed_cookie":
		r.AddCookie(&http.Cookie{Name: sessionCookieName, Value: "zz-not-hex"})
	case "empty_cookie":
		r.AddCookie(&http.Cookie{Name: sessionCookieName, Value: ""})
	case "expired_session":
		r.AddCookie(&http.Cookie{Name: sessionCookieName, Value: expiredCookie})
	case "logged_out_session":
		r.AddCookie(&http.Cookie{Name: sessionCookieName, Value: loggedOutCookie})
	case "basic_account_without_usable_hash":
		vfWeakCredSeq++
		u := vfWeakUsers[vfWeakCredSeq%len(vfWeakUsers)]
		pw := []string{"", "x", "letmein", vfAdminPass, "$1$saltsalt$qjXMvbEw8oaL.CzflDtaK/"}[(vfWeakCredSeq/len(vfWeakUsers))%5]
		r.SetBasicAuth(u, pw)
	case "wrong_basic":
		r.SetBasicAuth(vfAdminUser, "wrong password")
	case "unknown_user_basic":
		r.SetBasicAuth("root", vfAdminPass)
	case "basic_empty_pass":
		r.SetBasicAuth(vfAdminUser, "")
	}
}

// vfSpell returns a spelling of the path p.
func vfSpell(p, kind string) (s string) {
	switch kind {
	case "exact":
		return p
	case "trailing_slash":
		return p + "/"
	case "double_slash":
		return strings.Replace(p, "/", "//", 1)
	case "inner_double_slash":
		i := strings.LastIndexByte(p, '/')
		return p[:i] + "/" + p[i:]
	case "via_assets":
		return "/assets/.." + p
	case "via_login":
		return "/login.html/.." + p
	case "dot_segment":
		i := strings.LastIndexByte(p, '/')
		return p[:i] + "/." + p[i:]
	case "upper":
		return strings.ToUpper(p)
	case "suffix":
		return p + ".html"
	default:
		return p
	}
}

var vfSpellings = []string{"exact", "exact", "exact", "trailing_slash", "double_slash", "inner_double_slash", "via_assets", "via_login", "dot_segment", "upper", "suffix"}

// vfProtectedVerdict classifies a response to a request without valid
// credentials: "forbidden", "login_redirect", "normalise_redirect:<loc>" or
// "HANDLED" (anything else).
func vfUnauthVerdict(rec *httptest.ResponseRecorder) (v string) {
	switch rec.Code {
	case http.StatusForbidden:
		b := strings.TrimSpace(rec.Body.String())
		if b == "Forbidden" {
			return "forbidden"
		}

		return "HANDLED(403 with body " + strconv.Quote(b) + ")"
	case http.StatusFound:
		if loc := rec.Header().Get("Location"); loc == "login.html" || loc == "/login.html" {
			return "login_redirect"
		}
	case http.StatusMovedPermanently, http.StatusTemporaryRedirect, http.StatusPermanentRedirect:
		return "normalise_redirect:" + rec.Header().Get("Location")
	}

	return fmt.Sprintf("HANDLED(%d %q)", rec.Code, strings.TrimSpace(rec.Body.String()))
}

// vfMethods are request methods; a method is a case-sensitive token, so "post"
// is not POST.
var vfMethods = []string{"GET", "POST", "PUT", "DELETE", "HEAD", "OPTIONS", "PATCH", "BOGUS", "post", "Post", "put", "get"}

type vfShape struct {
	Method string
	CType  string
	Body   string
}

func vfDrawShape(t *rapid.T) (s vfShape) {
	s.Method = rapid.SampledFrom(vfMethods).Draw(t, "method")
	s.CType = rapid.SampledFrom([]string{"", "application/json", "application/x-www-form-urlencoded", "text/plain", "application/json; charset=utf-8"}).Draw(t, "ctype")
	s.Body = rapid.SampledFrom([]string{"", "{}", `{"name":"x","ids":["192.0.2.1"],"enabled":true,"url":"https://e.invalid/l.txt","rules":["||a^"]}`, "garbage=1&x=y", "\x00\x01"}).Draw(t, "body")

	return s
}

func vfNewRequest(s vfShape, target string) (r *http.Request) {
	var body *strings.Reader
	if s.Body != "" {
		body = strings.NewReader(s.Body)
	}
	if body != nil {
		r = httptest.NewRequest(s.Method, "http://agh.vf.test"+target, body)
	} else {
		r = httptest.NewRequest(s.Method, "http://agh.vf.test"+target, nil)
	}
	if s.CType != "" {
		r.Header.Set("Content-Type", s.CType)
	}
	r.RemoteAddr = "198.51.100.99:4242"

	return r
}

// TestVFC11Unauthenticated: for every registered route and request shape
// without valid credentials the wrapped handler does not run.
func TestVFC11Unauthenticated(t *testing.T) {
	vfkit.Begin(t)
	if err := vfMuxSelfTest(); err != nil {
		t.Fatalf("VERIF-INCONCLUSIVE mux reflection self-test: %v", err)
	}
	a := vfAssemble()
	if a.err != nil {
		t.Fatalf("assembly failed: %v", a.err)
	}
	expired, err := vfNewSession(true)
	if err != nil {
		t.Fatalf("VERIF-INCONCLUSIVE session: %v", err)
	}
	loggedOut, err := vfNewSession(false)
	if err != nil {
		t.Fatalf("VERIF-INCONCLUSIVE session: %v", err)
	}
	globalContext.auth.removeSession(loggedOut)

	h := vfHandler()
	var protected []string
	for _, p := range a.patterns {
		if !vfPublic(p.Pattern) {
			protected = append(protected, p.Pattern)
		}
	}
	// paths below the catch-all "/" pattern that are not patterns themselves
	extra := []string{"/index.html", "/secret.txt", "/control/nonexistent", "/control", "/control/", "/assets", "/loginx.html", "/apple/x.txt", "/install.html"}
	vfC11.Note("protected_patterns", len(protected))
	vfC11.Note("all_patterns", len(a.patterns))

	rapid.Check(t, func(t *rapid.T) {
		var route string
		if rapid.IntRange(0, 9).Draw(t, "extra_path") == 0 {
			route = rapid.SampledFrom(extra).Draw(t, "path")
		} else {
			route = rapid.SampledFrom(protected).Draw(t, "route")
		}
		shape := vfDrawShape(t)
		cred := rapid.SampledFrom(vfBadCreds).Draw(t, "cred")
		spelling := rapid.SampledFrom(vfSpellings).Draw(t, "spelling")
		target := vfSpell(route, spelling)
		if route == "/" && spelling != "exact" && spelling != "suffix" {
			target = route
			spelling = "exact"
		}

		if cp := path.Clean(target); vfPublic(cp) || (strings.HasSuffix(target, "/") && vfPublic(cp+"/")) {
			// the spelling landed on a public resource (e.g. "/assets" + "/")
			vfC11.Class("spelling_became_public")

			return
		}
		if cred == "expired_session" {
			// an expired session is deleted on its first use: take a fresh one
			var serr error
			expired, serr = vfNewSession(true)
			if serr != nil {
				t.Fatalf("VERIF-INCONCLUSIVE session: %v", serr)
			}
		}
		before := vfTakeSnapshot(a)
		hops := 0
		var verdict string
		cur := target
		for {
			r := vfNewRequest(shape, cur)
			vfApplyBadCred(r, cred, expired, loggedOut)
			rec := httptest.NewRecorder()
			h.ServeHTTP(rec, r)
			verdict = vfUnauthVerdict(rec)
			if strings.HasPrefix(verdict, "normalise_redirect:") && hops < 3 {
				loc := strings.TrimPrefix(verdict, "normalise_redirect:")
				if !strings.HasPrefix(loc, "/") || strings.Contains(loc, "//") || strings.Contains(loc, "/../") {
					t.Fatalf("%s %s (cred %s): redirect to a non-clean location %q", shape.Method, cur, cred, loc)
				}
				if vfPublic(path.Clean(loc)) {
					// e.g. "/login.html/../x" can legitimately normalise onto a
					// public page only if the clean path is public
					break
				}
				cur = loc
				hops++

				continue
			}

			break
		}
		after := vfTakeSnapshot(a)

		vfC11.Eval()
		vfC11.Class("cred:" + cred)
		vfC11.Class("method:" + shape.Method)
		vfC11.Class("spelling:" + spelling)
		vfC11.Class("verdict:" + strings.SplitN(verdict, ":", 2)[0])
		if hops > 0 {
			vfC11.Class("verdict:normalise_redirect")
		}
		mclass := "read"
		if shape.Method == "POST" || shape.Method == "PUT" || shape.Method == "DELETE" || shape.Method == "PATCH" {
			mclass = "write"
		}
		vfC11.Nontrivial(fmt.Sprintf("%s|%s|%s|%s", route, cred, mclass, spelling))
		if vfC11.WantSample("unauth/" + cred) {
			vfC11.Sample("unauth/"+cred, map[string]any{
				"request": shape.Method + " " + target, "content_type": shape.CType, "body": shape.Body, "credentials": cred, "verdict": verdict,
			})
		}

		ok := verdict == "forbidden" || verdict == "login_redirect" || strings.HasPrefix(verdict, "normalise_redirect:")
		if verdict == "login_redirect" {
			cp := path.Clean(cur)
			if cp != "/" && cp != "/index.html" {
				ok = false
			}
		}
		if !ok {
			t.Fatalf("%s %s (route %s, content-type %q, body %q) with credentials %q was not refused: %s",
				shape.Method, target, route, shape.CType, shape.Body, cred, verdict)
		}
		if cred == "expired_session" && after.Sessions <= before.Sessions {
			// lazy deletion of the expired session is not a side effect of the
			// endpoint
			after.Sessions = before.Sessions
		}
		if before != after {
			t.Fatalf("%s %s with credentials %q had a side effect: %+v -> %+v", shape.Method, target, cred, before, after)
		}
	})
}

// TestVFC11Authenticated: with valid credentials a request is never refused
// for lack of authentication, a wrong method gets 405 and a state-changing
// method with a non-JSON body gets 415 -- checked without ever letting a
// state-changing handler run.
func TestVFC11Authenticated(t *testing.T) {
	vfkit.Begin(t)
	a := vfAssemble()
	if a.err != nil {
		t.Fatalf("assembly failed: %v", a.err)
	}
	session, err := vfNewSession(false)
	if err != nil {
		t.Fatalf("VERIF-INCONCLUSIVE session: %v", err)
	}
	h := vfHandler()

	// routes the method/content-type guard applies to: everything protected
	// except the file server, the first-run routes and the version check,
	// which the code registers without a declared method.
	var guarded []string
	for _, p := range a.patterns {
		pp := p.Pattern
		if vfPublic(pp) || vfInstallRoute(pp) || pp == "/" || pp == "/control/version.json" {
			continue
		}
		guarded = append(guarded, pp)
	}
	vfC11.Note("guarded_patterns", len(guarded))

	rapid.Check(t, func(t *rapid.T) {
		route := rapid.SampledFrom(guarded).Draw(t, "route")
		useCookie := rapid.Bool().Draw(t, "cookie")
		auth := func(r *http.Request) {
			if useCookie {
				r.AddCookie(&http.Cookie{Name: sessionCookieName, Value: session})
			} else {
				// the administrator's own machine, not the address the
				// requests with bad credentials come from (failed Basic
				// attempts count against their address)
				r.RemoteAddr = "198.51.100.7:4242"
				r.SetBasicAuth(vfAdminUser, vfAdminPass)
			}
		}

		before := vfTakeSnapshot(a)
		// 1. a method no route declares
		// (a method is a case-sensitive token: "post" is not POST)
		bogus := rapid.SampledFrom([]string{"BOGUS", "PATCH", "OPTIONS", "HEAD", "TRACE", "post", "Post", "put", "pUT", "delete"}).Draw(t, "bogus_method")
		r := vfNewRequest(vfShape{Method: bogus, CType: "text/plain", Body: "name=x&enabled=true"}, route)
		auth(r)
		rec := httptest.NewRecorder()
		h.ServeHTTP(rec, r)
		if rec.Code != http.StatusMethodNotAllowed {
			t.Fatalf("authenticated %s %s: status %d, want 405", bogus, route, rec.Code)
		}

		// 2. state-changing methods with a body that is not JSON: 405 for the
		// methods the route does not declare, 415 for the one it does
		ctype := rapid.SampledFrom([]string{
			"text/plain", "application/x-www-form-urlencoded", "multipart/form-data", "",
			// non-JSON media types that merely mention JSON
			"text/plain; charset=application/json", "multipart/form-data; boundary=application/json",
			"application/x-www-form-urlencoded; x=application/json", "text/application/json", "application/jsonp",
		}).Draw(t, "ctype")
		declared := 0
		for _, m := range []string{"POST", "PUT", "DELETE"} {
			r = vfNewRequest(vfShape{Method: m, CType: ctype, Body: "name=x&enabled=true"}, route)
			auth(r)
			rec = httptest.NewRecorder()
			h.ServeHTTP(rec, r)
			switch rec.Code {
			case http.StatusMethodNotAllowed:
			case http.StatusUnsupportedMediaType:
				declared++
			default:
				t.Fatalf("authenticated %s %s with content-type %q and a form body: status %d (%q), want 405 or 415",
					m, route, ctype, rec.Code, strings.TrimSpace(rec.Body.String()))
			}
		}
		if declared > 1 {
			t.Fatalf("route %s accepts %d state-changing methods", route, declared)
		}
		// 3. a form content type without body on the declared method
		after := vfTakeSnapshot(a)
		// the session's expiry may be refreshed by use; only the rest must hold
		before.Sessions, after.Sessions = 0, 0
		if before != after {
			t.Fatalf("guard-rejected requests to %s had a side effect: %+v -> %+v", route, before, after)
		}

		vfC11.Eval()
		vfC11.Class("auth:guard")
		kind := "get_route"
		if declared == 1 {
			kind = "write_route"
		}
		vfC11.Class("auth:" + kind)
		vfC11.Nontrivial(fmt.Sprintf("auth|%s|%s|%s|cookie=%t", route, bogus, ctype, useCookie))
		if vfC11.WantSample("auth/" + kind) {
			vfC11.Sample("auth/"+kind, map[string]any{"route": route, "bogus_method": bogus, "ctype": ctype, "cookie": useCookie})
		}
	})
}

// vfSafeGET are read-only endpoints that may run with valid credentials.
var vfSafeGET = []string{
	"/control/status", "/control/profile", "/control/clients", "/control/filtering/status", "/control/access/list",
	"/control/rewrite/list", "/control/blocked_services/all", "/control/blocked_services/get", "/control/safesearch/status",
	"/control/querylog", "/control/querylog/config", "/control/stats", "/control/stats/config", "/control/dns_info",
	"/control/tls/status", "/control/dhcp/status", "/control/i18n/current_language", "/control/parental/status",
	"/control/safebrowsing/status", "/",
}

// TestVFC11PublicAndValid: the public routes are reachable without
// credentials; valid credentials are accepted on read-only routes; first-run
// routes are closed once the installation is complete.
func TestVFC11PublicAndValid(t *testing.T) {
	vfkit.Begin(t)
	a := vfAssemble()
	if a.err != nil {
		t.Fatalf("assembly failed: %v", a.err)
	}
	h := vfHandler()
	do := func(method, target, ctype, body string, auth func(*http.Request)) (rec *httptest.ResponseRecorder) {
		r := vfNewRequest(vfShape{Method: method, CType: ctype, Body: body}, target)
		if auth != nil {
			auth(r)
		}
		rec = httptest.NewRecorder()
		h.ServeHTTP(rec, r)

		return rec
	}

	// public without credentials
	for _, c := range []struct{ method, target, ctype, body string }{
		{"GET", "/login.html", "", ""},
		{"GET", "/assets/app.js", "", ""},
		{"GET", "/apple/doh.mobileconfig?host=dns.example&client_id=abc", "", ""},
		{"GET", "/apple/dot.mobileconfig?host=dns.example", "", ""},
		{"GET", "/dns-query?dns=AAABAAABAAAAAAAAA3d3dwdleGFtcGxlA2NvbQAAAQAB", "", ""},
		{"GET", "/dns-query/client1?dns=AAABAAABAAAAAAAAA3d3dwdleGFtcGxlA2NvbQAAAQAB", "", ""},
	} {
		rec := do(c.method, c.target, c.ctype, c.body, nil)
		v := vfUnauthVerdict(rec)
		vfC11.Eval()
		vfC11.Class("public")
		vfC11.Nontrivial("public|" + c.target)
		if v == "forbidden" || v == "login_redirect" {
			t.Fatalf("public route %s %s is refused without credentials: %s", c.method, c.target, v)
		}
	}
	if rec := do("GET", "/login.html", "", "", nil); rec.Code != http.StatusOK || !strings.Contains(rec.Body.String(), "login") {
		t.Fatalf("login page: status %d body %q", rec.Code, rec.Body.String())
	}

	// the login call works without credentials and hands out a usable cookie
	rec := do("POST", "/control/login", "application/json", fmt.Sprintf(`{"name":%q,"password":%q}`, vfAdminUser, vfAdminPass), nil)
	if rec.Code != http.StatusOK {
		t.Fatalf("login with correct credentials: status %d %q", rec.Code, rec.Body.String())
	}
	var cookie *http.Cookie
	for _, c := range rec.Result().Cookies() {
		if c.Name == sessionCookieName {
			cookie = c
		}
	}
	if cookie == nil {
		t.Fatalf("login did not set a session cookie")
	}
	withCookie := func(r *http.Request) { r.AddCookie(&http.Cookie{Name: sessionCookieName, Value: cookie.Value}) }
	withBasic := func(r *http.Request) {
		r.RemoteAddr = "198.51.100.7:4242"
		r.SetBasicAuth(vfAdminUser, vfAdminPass)
	}

	for _, p := range vfSafeGET {
		for name, auth := range map[string]func(*http.Request){"cookie": withCookie, "basic": withBasic} {
			rec = do("GET", p, "", "", auth)
			vfC11.Eval()
			vfC11.Class("valid:" + name)
			vfC11.Nontrivial("valid|" + p + "|" + name)
			if rec.Code != http.StatusOK {
				t.Fatalf("GET %s with valid %s credentials: status %d %q", p, name, rec.Code, strings.TrimSpace(rec.Body.String()))
			}
		}
	}

	// first-run routes are closed for everybody once installed
	for _, p := range a.patterns {
		if !vfInstallRoute(p.Pattern) {
			continue
		}
		for _, m := range []string{"GET", "POST"} {
			for name, auth := range map[string]func(*http.Request){"none": nil, "cookie": withCookie, "basic": withBasic} {
				rec = do(m, p.Pattern, "application/json", "{}", auth)
				vfC11.Eval()
				vfC11.Class("install_closed")
				vfC11.Nontrivial("install|" + p.Pattern + "|" + m + "|" + name)
				if rec.Code != http.StatusForbidden {
					t.Fatalf("%s %s (credentials %s) after installation: status %d, want 403", m, p.Pattern, name, rec.Code)
				}
			}
		}
	}

	// after logout the cookie is dead
	rec = do("GET", "/control/logout", "", "", withCookie)
	if rec.Code != http.StatusFound {
		t.Fatalf("logout: status %d", rec.Code)
	}
	rec = do("GET", "/control/status", "", "", withCookie)
	if v := vfUnauthVerdict(rec); v != "forbidden" {
		t.Fatalf("request with a logged-out cookie: %s", v)
	}

	// ... and stays dead when the program is restarted (the session database
	// is read again), while a session that was not logged out survives
	keep, kerr := vfNewSession(false)
	if kerr != nil {
		t.Fatalf("VERIF-INCONCLUSIVE session: %v", kerr)
	}
	// several more sessions are in the database at the restart, one of them
	// about to expire: each is read back with its own expiry
	var others []string
	for i := 0; i < 6; i++ {
		o, oerr := vfNewSession(false)
		if oerr != nil {
			t.Fatalf("VERIF-INCONCLUSIVE session: %v", oerr)
		}
		others = append(others, o)
	}
	short, serr := vfNewSession(false)
	if serr != nil {
		t.Fatalf("VERIF-INCONCLUSIVE session: %v", serr)
	}
	func() {
		a := globalContext.auth
		a.lock.Lock()
		ss := a.sessions[short]
		ss.expire = uint32(time.Now().Unix()) + 2
		a.lock.Unlock()
		key := make([]byte, len(short)/2)
		_, _ = fmt.Sscanf(short, "%x", &key)
		a.storeSession(key, ss)
	}()
	if rerr := vfRestartAuth(); rerr != nil {
		t.Fatalf("VERIF-INCONCLUSIVE restarting the authentication module: %v", rerr)
	}
	time.Sleep(3200 * time.Millisecond)
	withTok := func(tok string) func(*http.Request) {
		return func(r *http.Request) { r.AddCookie(&http.Cookie{Name: sessionCookieName, Value: tok}) }
	}
	vfC11.Eval()
	vfC11.Class("restart:session_expired_since")
	vfC11.Nontrivial("restart|expired_since")
	rec = do("GET", "/control/status", "", "", withTok(short))
	if v := vfUnauthVerdict(rec); v != "forbidden" {
		t.Fatalf("a session that was in the database at the restart and has expired since still authenticates: %s", v)
	}
	for _, o := range others {
		rec = do("GET", "/control/status", "", "", withTok(o))
		vfC11.Eval()
		if rec.Code != http.StatusOK {
			t.Fatalf("one of several unexpired sessions in the database at the restart is refused afterwards: status %d", rec.Code)
		}
	}
	vfC11.Eval()
	vfC11.Class("restart:logged_out_cookie")
	vfC11.Nontrivial("restart|logged_out_cookie")
	rec = do("GET", "/control/status", "", "", withCookie)
	if v := vfUnauthVerdict(rec); v != "forbidden" {
		t.Fatalf("request with a logged-out cookie after a restart: %s", v)
	}
	rec = do("GET", "/control/status", "", "", func(r *http.Request) { r.AddCookie(&http.Cookie{Name: sessionCookieName, Value: keep}) })
	if rec.Code != http.StatusOK {
		t.Fatalf("a session that was not logged out is refused after a restart: status %d", rec.Code)
	}

	// accounts without a usable password hash cannot log in with any password
	for _, u := range vfWeakUsers {
		for _, pw := range []string{"", "x", "letmein", vfAdminPass, "$1$saltsalt$qjXMvbEw8oaL.CzflDtaK/"} {
			rec = do("POST", "/control/login", "application/json", fmt.Sprintf(`{"name":%q,"password":%q}`, u, pw), nil)
			vfC11.Eval()
			vfC11.Class("weak_account_login")
			vfC11.Nontrivial("weak_login|" + u + "|" + pw)
			got := false
			for _, c := range rec.Result().Cookies() {
				got = got || (c.Name == sessionCookieName && c.Value != "")
			}
			if rec.Code == http.StatusOK || got {
				t.Fatalf("login as %q (an account without a usable password hash) with password %q: status %d, session cookie handed out: %t", u, pw, rec.Code, got)
			}
		}
	}
}

var vfRouteLit = regexp.MustCompile(`^/(control|apple|dns-query|install)[A-Za-z0-9_./-]*$`)

// TestVFC11RouteCoverage is the generator-completeness meter: every route
// literal that sits in a registration call anywhere under internal/ (build
// constraints respected) must be known to the assembled mux.
func TestVFC11RouteCoverage(t *testing.T) {
	vfkit.Begin(t)
	a := vfAssemble()
	if a.err != nil {
		t.Fatalf("assembly failed: %v", a.err)
	}
	known := map[string]bool{}
	for _, p := range a.patterns {
		known[p.Pattern] = true
	}
	root := os.Getenv("VERIF_REPO")
	if root == "" {
		root = "/repo"
	}
	root = filepath.Join(root, "internal")
	ctx := build.Default
	fset := token.NewFileSet()
	found := map[string]string{}
	err := filepath.WalkDir(root, func(p string, d fs.DirEntry, werr error) error {
		if werr != nil {
			return werr
		}
		if d.IsDir() {
			if d.Name() == "next" || d.Name() == "testdata" || d.Name() == "vfkit" {
				return filepath.SkipDir
			}

			return nil
		}
		if !strings.HasSuffix(p, ".go") || strings.HasSuffix(p, "_test.go") {
			return nil
		}
		if ok, merr := ctx.MatchFile(filepath.Dir(p), d.Name()); merr != nil || !ok {
			return nil
		}
		f, perr := parser.ParseFile(fset, p, nil, parser.SkipObjectResolution)
		if perr != nil {
			return nil
		}
		ast.Inspect(f, func(n ast.Node) bool {
			call, ok := n.(*ast.CallExpr)
			if !ok {
				return true
			}
			var name string
			switch fn := call.Fun.(type) {
			case *ast.Ident:
				name = fn.Name
			case *ast.SelectorExpr:
				name = fn.Sel.Name
			}
			ln := strings.ToLower(name)
			if !strings.Contains(ln, "register") && !strings.HasPrefix(ln, "handle") && ln != "httpreg" {
				return true
			}
			for _, arg := range call.Args {
				lit, ok := arg.(*ast.BasicLit)
				if !ok || lit.Kind != token.STRING {
					continue
				}
				s, uerr := strconv.Unquote(lit.Value)
				if uerr == nil && vfRouteLit.MatchString(s) {
					found[s] = fset.Position(lit.Pos()).String()
				}
			}

			return true
		})

		return nil
	})
	if err != nil {
		t.Fatalf("VERIF-INCONCLUSIVE source walk: %v", err)
	}
	if len(found) < 50 {
		t.Fatalf("VERIF-INCONCLUSIVE source scan found only %d route literals", len(found))
	}
	vfC11.Note("route_literals_in_source", len(found))
	for s, pos := range found {
		vfC11.Eval()
		vfC11.Class("source_route")
		vfC11.Nontrivial("src|" + s)
		if !known[s] {
			t.Fatalf("route %q registered at %s is unknown to the assembled mux: the harness cannot show it requires authentication", s, pos)
		}
	}
	// and every pattern's registration site must be one of the known wrappers
	for _, p := range a.patterns {
		vfC11.Sample("pattern", map[string]string{"pattern": p.Pattern, "registered_at": strings.TrimPrefix(p.Loc, "/repo/")})
	}
}

// vfFilteringConf reads counts out of the live filtering configuration.
type vfFilteringConf struct{ filters, rules, rewrites int }

func (c *vfFilteringConf) read() {
	fc := &filtering.Config{}
	globalContext.filters.WriteDiskConfig(fc)
	c.filters = len(fc.Filters) + len(fc.WhitelistFilters)
	c.rules = len(fc.UserRules)
	c.rewrites = len(fc.Rewrites)
}
