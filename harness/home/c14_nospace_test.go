//go:build verif

package home

// C14, a save that cannot be completed: while the configuration is being
// saved the process runs into its file-size limit at a generated point (the
// same failure a full disk or an exceeded quota gives: a write that stops
// short).  Whatever the save reports, the path holds the complete previous
// version or the complete new one.  The limit is in force only for the one
// call.

import (
	"bytes"
	"fmt"
	"os"
	"os/signal"
	"strings"
	"syscall"
	"testing"

	"github.com/AdguardTeam/AdGuardHome/internal/vfkit"
	"gopkg.in/yaml.v3"
	"pgregory.net/rapid"
)

func TestVFC14ConfigNoSpace(t *testing.T) {
	vfkit.Begin(t)
	a := vfAssemble()
	if a.err != nil {
		t.Fatalf("assembly failed: %v", a.err)
	}
	confPath := configFilePath()
	// a write beyond the limit must fail with an error, not end the process
	signal.Ignore(syscall.SIGXFSZ)
	defer signal.Reset(syscall.SIGXFSZ)

	rapid.Check(t, func(t *rapid.T) {
		n := rapid.SampledFrom([]int{40, 300, 900}).Draw(t, "clients")
		if err := vfC14SetClients(n, 0); err != nil {
			t.Fatalf("VERIF-INCONCLUSIVE clients: %v", err)
		}
		config.Language = "rev-old"
		if err := config.write(globalContext.tls); err != nil {
			t.Fatalf("VERIF-INCONCLUSIVE first save: %v", err)
		}
		before, err := os.ReadFile(confPath)
		if err != nil {
			t.Fatalf("VERIF-INCONCLUSIVE %v", err)
		}

		// the next revision, about as large
		if err = vfC14SetClients(n, 1); err != nil {
			t.Fatalf("VERIF-INCONCLUSIVE clients: %v", err)
		}
		config.Language = "rev-new"
		frac := rapid.SampledFrom([]int{0, 1, 25, 50, 90, 99, 100, 200}).Draw(t, "limit_percent_of_file")
		limit := uint64(len(before)) * uint64(frac) / 100

		var old syscall.Rlimit
		if err = syscall.Getrlimit(syscall.RLIMIT_FSIZE, &old); err != nil {
			t.Fatalf("VERIF-INCONCLUSIVE getrlimit: %v", err)
		}
		if err = syscall.Setrlimit(syscall.RLIMIT_FSIZE, &syscall.Rlimit{Cur: limit, Max: old.Max}); err != nil {
			t.Fatalf("VERIF-INCONCLUSIVE setrlimit: %v", err)
		}
		werr := config.write(globalContext.tls)
		if rerr := syscall.Setrlimit(syscall.RLIMIT_FSIZE, &old); rerr != nil {
			panic(fmt.Sprintf("cannot lift the file-size limit again: %v", rerr))
		}

		after, err := os.ReadFile(confPath)
		vfC14.Eval()
		vfC14.Class(fmt.Sprintf("config:nospace:limit=%d%%", frac))
		if werr != nil {
			vfC14.Class("config:nospace:save_failed")
			vfC14.Nontrivial(fmt.Sprintf("config|nospace|%d|%d", n, frac))
		} else {
			vfC14.Class("config:nospace:save_fitted")
		}
		if err != nil {
			t.Fatalf("after a save that ran into the file-size limit of %d bytes (save reported: %v) the configuration file cannot be read: %v", limit, werr, err)
		}
		if bytes.Equal(after, before) {
			return
		}
		var doc struct {
			Language string `yaml:"language"`
			Clients  struct {
				Persistent []struct {
					Name string `yaml:"name"`
				} `yaml:"persistent"`
			} `yaml:"clients"`
			Schema int `yaml:"schema_version"`
		}
		yerr := yaml.Unmarshal(after, &doc)
		complete := yerr == nil && doc.Language == "rev-new" && len(doc.Clients.Persistent) == n && doc.Schema > 0
		for _, c := range doc.Clients.Persistent {
			complete = complete && strings.HasSuffix(c.Name, "-gen1")
		}
		if !complete {
			t.Fatalf("after a save that ran into the file-size limit of %d bytes (save reported: %v) the path holds %d bytes that are neither the previous version (%d bytes) nor a complete new one (parse: %v, language %q, %d clients, want %d)",
				limit, werr, len(after), len(before), yerr, doc.Language, len(doc.Clients.Persistent), n)
		}
	})
}
