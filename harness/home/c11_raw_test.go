//go:build verif

package home

// C11, raw request lines: the production handler behind a real net/http server
// on a loopback socket; requests are written as bytes, so request targets that
// no client library would produce (percent-encoded dot segments and letters,
// absolute-form and network-path targets, path parameters, backslashes, HTTP/1.0
// without Host) reach the server's own parsing and the mux's own cleaning.  The
// judge is the one of TestVFC11Unauthenticated, plus "rejected by net/http
// before any handler ran" (its own 400/505 pages).

import (
	"bufio"
	"encoding/base64"
	"fmt"
	"io"
	"net"
	"net/http"
	"net/http/httptest"
	"net/url"
	"path"
	"strings"
	"testing"
	"time"

	"github.com/AdguardTeam/AdGuardHome/internal/vfkit"
	"pgregory.net/rapid"
)

// vfRawSpellings are the request-target shapes.
var vfRawSpellings = []string{
	"exact", "pct_letter", "pct_letter_upper_hex", "pct_slash", "pct_dot_segment", "pct_dotdot_via_assets", "pct_dotdot_via_login",
	"dotdot_pct_slash_via_assets", "absolute_form", "absolute_form_other_host", "network_path", "path_param", "backslash",
	"query", "fragment", "double_pct", "bad_pct", "http10_no_host", "trailing_dot_segment",
}

// vfRawSpell returns the raw request target (and whether to speak HTTP/1.0
// without a Host header).
func vfRawSpell(p, kind string) (target string, http10 bool) {
	last := strings.LastIndexByte(p, '/')
	switch kind {
	case "pct_letter":
		// the first letter after the first slash, percent-encoded
		if len(p) > 1 {
			return fmt.Sprintf("/%%%02x%s", p[1], p[2:]), false
		}
	case "pct_letter_upper_hex":
		if len(p) > last+1 {
			return fmt.Sprintf("%s/%%%02X%s", p[:last], p[last+1], p[last+2:]), false
		}
	case "pct_slash":
		if last > 0 {
			return p[:last] + "%2f" + p[last+1:], false
		}
	case "pct_dot_segment":
		return p[:last] + "/%2e" + p[last:], false
	case "pct_dotdot_via_assets":
		return "/assets/%2e%2e" + p, false
	case "pct_dotdot_via_login":
		return "/login.html/%2E%2E" + p, false
	case "dotdot_pct_slash_via_assets":
		return "/assets/..%2f" + p[1:], false
	case "absolute_form":
		return "http://agh.vf.test" + p, false
	case "absolute_form_other_host":
		return "https://login.html" + p, false
	case "network_path":
		return "//agh.vf.test" + p, false
	case "path_param":
		return p + ";x=1", false
	case "backslash":
		if last > 0 {
			return p[:last] + `\` + p[last+1:], false
		}
	case "query":
		return p + "?x=/login.html", false
	case "fragment":
		return p + "#/login.html", false
	case "double_pct":
		return "/assets/%252e%252e" + p, false
	case "bad_pct":
		return p + "%zz", false
	case "http10_no_host":
		return p, true
	case "trailing_dot_segment":
		return p + "/.", false
	}

	return p, false
}

// vfRawCredHeaders renders the bad-credential kinds as header lines.
func vfRawCredHeaders(kind, expiredCookie, loggedOutCookie string) (lines string) {
	basic := func(u, p string) string {
		return "Authorization: Basic " + base64.StdEncoding.EncodeToString([]byte(u+":"+p)) + "\r\n"
	}
	switch kind {
	case "unknown_cookie":
		return "Cookie: " + sessionCookieName + "=" + strings.Repeat("ab", 16) + "\r\n"
	case "malformed_cookie":
		return "Cookie: " + sessionCookieName + "=zz-not-hex\r\n"
	case "empty_cookie":
		return "Cookie: " + sessionCookieName + "=\r\n"
	case "expired_session":
		return "Cookie: " + sessionCookieName + "=" + expiredCookie + "\r\n"
	case "logged_out_session":
		return "Cookie: " + sessionCookieName + "=" + loggedOutCookie + "\r\n"
	case "basic_account_without_usable_hash":
		vfWeakCredSeq++
		return basic(vfWeakUsers[vfWeakCredSeq%len(vfWeakUsers)], []string{"", "x", "letmein", vfAdminPass}[(vfWeakCredSeq/len(vfWeakUsers))%4])
	case "wrong_basic":
		return basic(vfAdminUser, "wrong password")
	case "unknown_user_basic":
		return basic("root", vfAdminPass)
	case "basic_empty_pass":
		return basic(vfAdminUser, "")
	}

	return ""
}

func TestVFC11RawRequestLine(t *testing.T) {
	vfkit.Begin(t)
	a := vfAssemble()
	if a.err != nil {
		t.Fatalf("assembly failed: %v", a.err)
	}
	expired, err := vfNewSession(true)
	if err != nil {
		t.Fatalf("VERIF-INCONCLUSIVE session: %v", err)
	}
	loggedOut, err := vfNewSession(false)
	if err != nil {
		t.Fatalf("VERIF-INCONCLUSIVE session: %v", err)
	}
	globalContext.auth.removeSession(loggedOut)

	ln, err := net.Listen("tcp", "127.0.0.1:0")
	if err != nil {
		t.Fatalf("VERIF-INCONCLUSIVE listen: %v", err)
	}
	srv := &http.Server{Handler: vfHandler(), ReadHeaderTimeout: 5 * time.Second}
	go func() { _ = srv.Serve(ln) }()
	defer srv.Close()

	var protected []string
	for _, p := range a.patterns {
		if !vfPublic(p.Pattern) && p.Pattern != "/" {
			protected = append(protected, p.Pattern)
		}
	}
	protected = append(protected, "/index.html", "/secret.txt", "/control/nonexistent")

	exchange := func(raw string, method string) (rec *httptest.ResponseRecorder, xerr error) {
		conn, derr := net.DialTimeout("tcp", ln.Addr().String(), 5*time.Second)
		if derr != nil {
			return nil, derr
		}
		defer conn.Close()
		_ = conn.SetDeadline(time.Now().Add(20 * time.Second))
		if _, werr := io.WriteString(conn, raw); werr != nil {
			return nil, werr
		}
		resp, rerr := http.ReadResponse(bufio.NewReader(conn), &http.Request{Method: method})
		if rerr != nil {
			return nil, rerr
		}
		defer resp.Body.Close()
		body, _ := io.ReadAll(io.LimitReader(resp.Body, 1<<16))
		rec = httptest.NewRecorder()
		rec.Code = resp.StatusCode
		for k, v := range resp.Header {
			rec.Header()[k] = v
		}
		_, _ = rec.Body.Write(body)

		return rec, nil
	}

	rapid.Check(t, func(t *rapid.T) {
		route := rapid.SampledFrom(protected).Draw(t, "route")
		spelling := rapid.SampledFrom(vfRawSpellings).Draw(t, "spelling")
		shape := vfDrawShape(t)
		if shape.Method == "BOGUS" {
			shape.Method = "GET"
		}
		cred := rapid.SampledFrom(vfBadCreds).Draw(t, "cred")
		target, http10 := vfRawSpell(route, spelling)
		if cred == "expired_session" {
			var serr error
			expired, serr = vfNewSession(true)
			if serr != nil {
				t.Fatalf("VERIF-INCONCLUSIVE session: %v", serr)
			}
		}

		build := func(tgt string) string {
			sb := &strings.Builder{}
			if http10 {
				fmt.Fprintf(sb, "%s %s HTTP/1.0\r\n", shape.Method, tgt)
			} else {
				fmt.Fprintf(sb, "%s %s HTTP/1.1\r\nHost: agh.vf.test\r\nConnection: close\r\n", shape.Method, tgt)
			}
			sb.WriteString(vfRawCredHeaders(cred, expired, loggedOut))
			if shape.CType != "" {
				fmt.Fprintf(sb, "Content-Type: %s\r\n", shape.CType)
			}
			if shape.Body != "" {
				fmt.Fprintf(sb, "Content-Length: %d\r\n", len(shape.Body))
			}
			sb.WriteString("\r\n")
			sb.WriteString(shape.Body)

			return sb.String()
		}

		before := vfTakeSnapshot(a)
		cur := target
		hops := 0
		var verdict string
		for {
			rec, xerr := exchange(build(cur), shape.Method)
			if xerr != nil {
				// the server closed the connection without a response: nothing
				// was handled
				verdict = "no_response"

				break
			}
			verdict = vfUnauthVerdict(rec)
			body := strings.TrimSpace(rec.Body.String())
			switch {
			case (rec.Code == http.StatusBadRequest || rec.Code == http.StatusHTTPVersionNotSupported) &&
				strings.HasPrefix(body, fmt.Sprintf("%d %s", rec.Code, http.StatusText(rec.Code))):
				// net/http's own page: the request never reached a handler
				verdict = "rejected_by_server"
			case rec.Code == http.StatusBadRequest && shape.Method == "HEAD" && body == "":
				verdict = "rejected_by_server"
			case rec.Code == http.StatusForbidden && shape.Method == "HEAD" && body == "":
				// a real server sends no body in reply to HEAD
				verdict = "forbidden"
			}
			if strings.HasPrefix(verdict, "normalise_redirect:") && hops < 3 {
				loc := strings.TrimPrefix(verdict, "normalise_redirect:")
				if !strings.HasPrefix(loc, "/") || strings.Contains(loc, "/../") {
					t.Fatalf("%s %q (cred %s): redirect to a non-clean location %q", shape.Method, cur, cred, loc)
				}
				if vfPublic(path.Clean(loc)) {
					break
				}
				cur = loc
				hops++

				continue
			}

			break
		}
		after := vfTakeSnapshot(a)

		vfC11.Eval()
		vfC11.Class("raw:spelling:" + spelling)
		vfC11.Class("raw:verdict:" + strings.SplitN(verdict, ":", 2)[0])
		if hops > 0 {
			vfC11.Class("raw:verdict:normalise_redirect")
		}
		vfC11.Nontrivial(fmt.Sprintf("raw|%s|%s|%s|%s", route, cred, shape.Method, spelling))
		if vfC11.WantSample("raw/" + spelling) {
			vfC11.Sample("raw/"+spelling, map[string]any{
				"request_line": shape.Method + " " + target, "http10_without_host": http10, "credentials": cred, "verdict": verdict,
			})
		}

		ok := verdict == "forbidden" || verdict == "login_redirect" || verdict == "rejected_by_server" || verdict == "no_response" ||
			strings.HasPrefix(verdict, "normalise_redirect:")
		if verdict == "login_redirect" {
			// only the dashboard page itself sends to the login page
			raw := strings.SplitN(strings.SplitN(cur, "?", 2)[0], "#", 2)[0]
			if u, perr := url.ParseRequestURI(cur); perr == nil {
				// what the server routes on: the decoded path of the target
				raw = u.Path
			}
			cp := path.Clean(raw)
			if cp != "/" && cp != "/index.html" {
				ok = false
			}
		}
		if !ok {
			t.Fatalf("raw request %q (route %s, spelling %s, content-type %q, body %q) with credentials %q was not refused: %s",
				shape.Method+" "+target, route, spelling, shape.CType, shape.Body, cred, verdict)
		}
		if cred == "expired_session" && after.Sessions <= before.Sessions {
			after.Sessions = before.Sessions
		}
		if before != after {
			t.Fatalf("raw request %q with credentials %q had a side effect: %+v -> %+v", shape.Method+" "+target, cred, before, after)
		}
	})
}
