//go:build verif

package home

// C04 (HTTP part): the clients API keeps the registry consistent: an add or
// update that would make two clients share a name or an identifier is refused
// (400) and leaves the registry as it was; an accepted one is applied; deletes
// remove; GET /control/clients lists exactly the model.

import (
	"context"
	"encoding/hex"
	"encoding/json"
	"fmt"
	"net"
	"net/http"
	"net/http/httptest"
	"net/netip"
	"sort"
	"strings"
	"testing"

	"github.com/AdguardTeam/AdGuardHome/internal/client"
	"github.com/AdguardTeam/AdGuardHome/internal/vfkit"
	"pgregory.net/rapid"
)

var vfC04 = vfkit.For("C04")

var (
	vfC04Names = []string{"alpha", "beta", "gamma", "delta"}
	vfC04IDs   = []string{
		"192.0.2.1", "192.0.2.2", "2001:db8::1", "10.0.0.0/8", "10.1.0.0/16", "192.0.2.0/24",
		"02:00:00:00:00:01", "02:00:00:00:00:02", "kid-1", "guest",
		// an EUI-64 and an InfiniBand hardware address
		"02-00-5e-10-00-00-00-01", "00-00-00-00-fe-80-00-00-00-00-00-00-02-00-5e-10-00-00-00-01",
	}
)

// vfC04Canon says what an identifier denotes when the program reads it: an
// address, a network, a hardware address or a ClientID, in the order the
// clients API tries them.  Two spellings are the same identifier if they
// denote the same thing.
func vfC04Canon(id string) (c string) {
	if a, err := netip.ParseAddr(id); err == nil {
		return "address " + a.String()
	}
	if p, err := netip.ParsePrefix(id); err == nil {
		return "network " + p.String()
	}
	if m, err := net.ParseMAC(id); err == nil {
		return "hardware address " + hex.EncodeToString(m)
	}

	return "clientid " + strings.ToLower(id)
}

func vfC04Do(h http.Handler, method, path, body string) (rec *httptest.ResponseRecorder) {
	var r *http.Request
	if body != "" {
		r = httptest.NewRequest(method, "http://agh.vf.test"+path, strings.NewReader(body))
		r.Header.Set("Content-Type", "application/json")
	} else {
		r = httptest.NewRequest(method, "http://agh.vf.test"+path, nil)
	}
	r.SetBasicAuth(vfAdminUser, vfAdminPass)
	r.RemoteAddr = "192.0.2.250:1"
	rec = httptest.NewRecorder()
	h.ServeHTTP(rec, r)

	return rec
}

func vfC04Body(name string, ids []string) (s string) {
	b, _ := json.Marshal(map[string]any{
		"name": name, "ids": ids, "use_global_settings": true, "use_global_blocked_services": true,
		"tags": []string{}, "upstreams": []string{}, "blocked_services": []string{},
	})

	return string(b)
}

func TestVFC04HTTP(t *testing.T) {
	vfkit.Begin(t)
	a := vfAssemble()
	if a.err != nil {
		t.Fatalf("assembly failed: %v", a.err)
	}
	h := vfHandler()
	ctx := context.Background()
	st := globalContext.clients.storage

	rapid.Check(t, func(t *rapid.T) {
		var names []string
		st.RangeByName(func(c *client.Persistent) (cont bool) {
			names = append(names, c.Name)

			return true
		})
		for _, n := range names {
			st.RemoveByName(ctx, n)
		}

		model := map[string][]string{} // name -> ids
		owner := func(id, except string) (name string) {
			for n, ids := range model {
				if n == except {
					continue
				}
				for _, x := range ids {
					if x == id {
						return n
					}
				}
			}

			return ""
		}
		rejected, moved := false, false
		var trace []string

		// listedRaw holds the identifiers of every client as last listed.
		listedRaw := map[string][]string{}
		listing := func() (got map[string][]string) {
			rec := vfC04Do(h, http.MethodGet, "/control/clients", "")
			if rec.Code != http.StatusOK {
				t.Fatalf("GET /control/clients: %d", rec.Code)
			}
			var doc struct {
				Clients []struct {
					Name string   `json:"name"`
					IDs  []string `json:"ids"`
				} `json:"clients"`
			}
			if err := json.Unmarshal(rec.Body.Bytes(), &doc); err != nil {
				t.Fatalf("GET /control/clients: %v", err)
			}
			got = map[string][]string{}
			for _, c := range doc.Clients {
				if _, dup := got[c.Name]; dup {
					t.Fatalf("client %q listed twice", c.Name)
				}
				var ids []string
				for _, id := range c.IDs {
					ids = append(ids, vfC04Canon(id))
				}
				sort.Strings(ids)
				got[c.Name] = ids
				listedRaw[c.Name] = c.IDs
			}

			return got
		}
		check := func(what string) {
			got := listing()
			want := map[string][]string{}
			for n, ids := range model {
				var s []string
				for _, id := range ids {
					s = append(s, vfC04Canon(id))
				}
				sort.Strings(s)
				want[n] = s
			}
			if fmt.Sprint(got) != fmt.Sprint(want) {
				t.Fatalf("after %s the registry is %v, want %v\nhistory: %s", what, got, want, strings.Join(trace, "; "))
			}
		}
		drawIDs := func(label string) (ids []string) {
			return rapid.SliceOfNDistinct(rapid.SampledFrom(vfC04IDs), 1, 3, rapid.ID[string]).Draw(t, label)
		}

		t.Repeat(map[string]func(*rapid.T){
			"add": func(t *rapid.T) {
				name := rapid.SampledFrom(vfC04Names).Draw(t, "name")
				ids := drawIDs("ids")
				clash := false
				if _, ok := model[name]; ok {
					clash = true
				}
				for _, id := range ids {
					if owner(id, "") != "" {
						clash = true
					}
				}
				rec := vfC04Do(h, http.MethodPost, "/control/clients/add", vfC04Body(name, ids))
				trace = append(trace, fmt.Sprintf("add %s %v -> %d", name, ids, rec.Code))
				vfC04.Eval()
				if clash {
					rejected = true
					vfC04.Class("http:clash_rejected")
					if rec.Code != http.StatusBadRequest {
						t.Fatalf("clashing add answered %d\nhistory: %s", rec.Code, strings.Join(trace, "; "))
					}
				} else {
					if rec.Code != http.StatusOK {
						t.Fatalf("valid add answered %d %s\nhistory: %s", rec.Code, rec.Body.String(), strings.Join(trace, "; "))
					}
					model[name] = ids
				}
				check("add")
			},
			"update": func(t *rapid.T) {
				old := rapid.SampledFrom(vfC04Names).Draw(t, "old_name")
				name := old
				if rapid.IntRange(0, 2).Draw(t, "rename") == 0 {
					name = rapid.SampledFrom(vfC04Names).Draw(t, "new_name")
				}
				ids := drawIDs("ids")
				_, exists := model[old]
				clash := !exists
				if name != old {
					if _, taken := model[name]; taken {
						clash = true
					}
				}
				for _, id := range ids {
					if owner(id, old) != "" {
						clash = true
					}
				}
				body, _ := json.Marshal(map[string]any{"name": old, "data": json.RawMessage(vfC04Body(name, ids))})
				rec := vfC04Do(h, http.MethodPost, "/control/clients/update", string(body))
				trace = append(trace, fmt.Sprintf("update %s->%s %v -> %d", old, name, ids, rec.Code))
				vfC04.Eval()
				if clash {
					rejected = true
					vfC04.Class("http:clash_rejected")
					if rec.Code != http.StatusBadRequest {
						t.Fatalf("clashing update answered %d\nhistory: %s", rec.Code, strings.Join(trace, "; "))
					}
				} else {
					if rec.Code != http.StatusOK {
						t.Fatalf("valid update answered %d %s\nhistory: %s", rec.Code, rec.Body.String(), strings.Join(trace, "; "))
					}
					if fmt.Sprint(model[old]) != fmt.Sprint(ids) {
						moved = true
						vfC04.Class("http:ids_changed")
					}
					delete(model, old)
					model[name] = ids
				}
				check("update")
			},
			"resave": func(t *rapid.T) {
				// what the web interface does when another setting of a
				// client is changed: the client is sent back with the
				// identifiers as they were listed
				if len(model) == 0 {
					t.Skip("no clients")
				}
				var names []string
				for n := range model {
					names = append(names, n)
				}
				sort.Strings(names)
				name := rapid.SampledFrom(names).Draw(t, "name")
				listing()
				body, _ := json.Marshal(map[string]any{"name": name, "data": json.RawMessage(vfC04Body(name, listedRaw[name]))})
				rec := vfC04Do(h, http.MethodPost, "/control/clients/update", string(body))
				trace = append(trace, fmt.Sprintf("resave %s %v -> %d", name, listedRaw[name], rec.Code))
				vfC04.Eval()
				vfC04.Class("http:resave_with_listed_identifiers")
				if rec.Code != http.StatusOK {
					t.Fatalf("sending client %q back with its listed identifiers %v answered %d %s\nhistory: %s",
						name, listedRaw[name], rec.Code, rec.Body.String(), strings.Join(trace, "; "))
				}
				check("resave")
			},
			"delete": func(t *rapid.T) {
				name := rapid.SampledFrom(vfC04Names).Draw(t, "name")
				_, exists := model[name]
				rec := vfC04Do(h, http.MethodPost, "/control/clients/delete", fmt.Sprintf(`{"name":%q}`, name))
				trace = append(trace, fmt.Sprintf("delete %s -> %d", name, rec.Code))
				vfC04.Eval()
				if exists && rec.Code != http.StatusOK {
					t.Fatalf("delete of an existing client answered %d", rec.Code)
				}
				if !exists && rec.Code == http.StatusOK {
					t.Fatalf("delete of a missing client answered 200")
				}
				delete(model, name)
				check("delete")
			},
			"": func(t *rapid.T) {},
		})
		if rejected || moved {
			vfC04.Nontrivial("http|" + strings.Join(trace, ";"))
		}
		if vfC04.WantSample("http_history") && rejected && moved {
			vfC04.Sample("http_history", trace)
		}
	})
}

var _ = vfC04Canon
