//go:build verif

package home

// C04 (HTTP part): the clients API keeps the registry consistent: an add or
// update that would make two clients share a name or an identifier is refused
// (400) and leaves the registry as it was; an accepted one is applied; deletes
// remove; GET /control/clients lists exactly the model.

import (
	"context"
	"encoding/hex"
	"encoding/json"
	"fmt"
	"net"
	"net/http"
	"net/http/httptest"
	"net/netip"
	"sort"
	"strings"
	"testing"

	"github.com/AdguardTeam/AdGuardHome/internal/client"
	"github.com/AdguardTeam/AdGuardHome/internal/vfkit"
	"github.com/miekg/dns"
	"pgregory.net/rapid"
)

var vfC04 = vfkit.For("C04")

var (
	vfC04Names = []string{"alpha", "beta", "gamma", "delta"}
	vfC04IDs   = []string{
		"192.0.2.1", "192.0.2.2", "2001:db8::1", "10.0.0.0/8", "10.1.0.0/16", "192.0.2.0/24",
		"02:00:00:00:00:01", "02:00:00:00:00:02", "kid-1", "guest",
		// an EUI-64 and an InfiniBand hardware address
		"02-00-5e-10-00-00-00-01", "00-00-00-00-fe-80-00-00-00-00-00-00-02-00-5e-10-00-00-00-01",
	}
)

// vfC04Canon says what an identifier denotes when the program reads it: an
// address, a network, a hardware address or a ClientID, in the order the
// clients API tries them.  Two spellings are the same identifier if they
// denote the same thing.
func vfC04Canon(id string) (c string) {
	if a, err := netip.ParseAddr(id); err == nil {
		return "address " + a.String()
	}
	if p, err := netip.ParsePrefix(id); err == nil {
		return "network " + p.String()
	}
	if m, err := net.ParseMAC(id); err == nil {
		return "hardware address " + hex.EncodeToString(m)
	}

	return "clientid " + strings.ToLower(id)
}

func vfC04Do(h http.Handler, method, path, body string) (rec *httptest.ResponseRecorder) {
	var r *http.Request
	if body != "" {
		r = httptest.NewRequest(method, "http://agh.vf.test"+path, strings.NewReader(body))
		r.Header.Set("Content-Type", "application/json")
	} else {
		r = httptest.NewRequest(method, "http://agh.vf.test"+path, nil)
	}
	r.SetBasicAuth(vfAdminUser, vfAdminPass)
	r.RemoteAddr = "192.0.2.250:1"
	rec = httptest.NewRecorder()
	h.ServeHTTP(rec, r)

	return rec
}

func vfC04Body(name string, ids []string) (s string) {
	return vfC04BodySel(name, ids, "")
}

// vfC04Sels are the safe-search selections of a client with own settings: the
// services for which safe search is enforced.
var vfC04Sels = []string{"", "youtube", "duckduckgo", "youtube+duckduckgo"}

// vfC04BodySel is a client with its own settings and the safe-search
// selection sel; "" = a client that uses the global settings.
func vfC04BodySel(name string, ids []string, sel string) (s string) {
	m := map[string]any{
		"name": name, "ids": ids, "use_global_settings": sel == "", "use_global_blocked_services": true,
		"tags": []string{}, "upstreams": []string{}, "blocked_services": []string{},
	}
	if sel != "" {
		m["filtering_enabled"] = true
		m["safe_search"] = map[string]any{
			"enabled": true, "bing": false, "ecosia": false, "google": false, "pixabay": false, "yandex": false,
			"youtube": strings.Contains(sel, "youtube"), "duckduckgo": strings.Contains(sel, "duckduckgo"),
		}
	}
	b, _ := json.Marshal(m)

	return string(b)
}

func TestVFC04HTTP(t *testing.T) {
	vfkit.Begin(t)
	a := vfAssemble()
	if a.err != nil {
		t.Fatalf("assembly failed: %v", a.err)
	}
	h := vfHandler()
	ctx := context.Background()
	st := globalContext.clients.storage

	rapid.Check(t, func(t *rapid.T) {
		var names []string
		st.RangeByName(func(c *client.Persistent) (cont bool) {
			names = append(names, c.Name)

			return true
		})
		for _, n := range names {
			st.RemoveByName(ctx, n)
		}

		model := map[string][]string{} // name -> ids
		sels := map[string]string{}    // name -> safe-search selection
		owner := func(id, except string) (name string) {
			for n, ids := range model {
				if n == except {
					continue
				}
				for _, x := range ids {
					if x == id {
						return n
					}
				}
			}

			return ""
		}
		rejected, moved := false, false
		var trace []string

		// listedRaw holds the identifiers of every client as last listed.
		listedRaw := map[string][]string{}
		listing := func() (got map[string][]string) {
			rec := vfC04Do(h, http.MethodGet, "/control/clients", "")
			if rec.Code != http.StatusOK {
				t.Fatalf("GET /control/clients: %d", rec.Code)
			}
			var doc struct {
				Clients []struct {
					Name string   `json:"name"`
					IDs  []string `json:"ids"`
				} `json:"clients"`
			}
			if err := json.Unmarshal(rec.Body.Bytes(), &doc); err != nil {
				t.Fatalf("GET /control/clients: %v", err)
			}
			got = map[string][]string{}
			for _, c := range doc.Clients {
				if _, dup := got[c.Name]; dup {
					t.Fatalf("client %q listed twice", c.Name)
				}
				var ids []string
				for _, id := range c.IDs {
					ids = append(ids, vfC04Canon(id))
				}
				sort.Strings(ids)
				got[c.Name] = ids
				listedRaw[c.Name] = c.IDs
			}

			return got
		}
		check := func(what string) {
			got := listing()
			want := map[string][]string{}
			for n, ids := range model {
				var s []string
				for _, id := range ids {
					s = append(s, vfC04Canon(id))
				}
				sort.Strings(s)
				want[n] = s
			}
			if fmt.Sprint(got) != fmt.Sprint(want) {
				t.Fatalf("after %s the registry is %v, want %v\nhistory: %s", what, got, want, strings.Join(trace, "; "))
			}
			// the safe search a client's requests get is the one of the last
			// accepted add or update
			for n := range model {
				c, ok := st.FindByName(n)
				if !ok {
					t.Fatalf("after %s client %q is listed but not found by name\nhistory: %s", what, n, strings.Join(trace, "; "))
				}
				for svc, host := range map[string]string{"youtube": "www.youtube.com", "duckduckgo": "duckduckgo.com"} {
					enforced := false
					if c.SafeSearch != nil && c.UseOwnSettings {
						res, cerr := c.SafeSearch.CheckHost(ctx, host, dns.TypeA)
						if cerr != nil {
							t.Fatalf("VERIF-INCONCLUSIVE safe search of %q: %v", n, cerr)
						}
						enforced = res.IsFiltered
					}
					if wantOn := strings.Contains(sels[n], svc); enforced != wantOn {
						t.Fatalf("after %s the requests of client %q get safe search for %s: %t, but the last accepted call selected %q\nhistory: %s",
							what, n, svc, enforced, sels[n], strings.Join(trace, "; "))
					}
				}
			}
		}
		drawIDs := func(label string) (ids []string) {
			return rapid.SliceOfNDistinct(rapid.SampledFrom(vfC04IDs), 1, 3, rapid.ID[string]).Draw(t, label)
		}

		t.Repeat(map[string]func(*rapid.T){
			"add": func(t *rapid.T) {
				name := rapid.SampledFrom(vfC04Names).Draw(t, "name")
				ids := drawIDs("ids")
				clash := false
				if _, ok := model[name]; ok {
					clash = true
				}
				for _, id := range ids {
					if owner(id, "") != "" {
						clash = true
					}
				}
				sel := rapid.SampledFrom(vfC04Sels).Draw(t, "safe_search")
				rec := vfC04Do(h, http.MethodPost, "/control/clients/add", vfC04BodySel(name, ids, sel))
				trace = append(trace, fmt.Sprintf("add %s %v safe search %q -> %d", name, ids, sel, rec.Code))
				vfC04.Eval()
				if clash {
					rejected = true
					vfC04.Class("http:clash_rejected")
					if rec.Code != http.StatusBadRequest {
						t.Fatalf("clashing add answered %d\nhistory: %s", rec.Code, strings.Join(trace, "; "))
					}
				} else {
					if rec.Code != http.StatusOK {
						t.Fatalf("valid add answered %d %s\nhistory: %s", rec.Code, rec.Body.String(), strings.Join(trace, "; "))
					}
					model[name] = ids
					sels[name] = sel
				}
				check("add")
			},
			"update": func(t *rapid.T) {
				old := rapid.SampledFrom(vfC04Names).Draw(t, "old_name")
				name := old
				if rapid.IntRange(0, 2).Draw(t, "rename") == 0 {
					name = rapid.SampledFrom(vfC04Names).Draw(t, "new_name")
				}
				ids := drawIDs("ids")
				_, exists := model[old]
				clash := !exists
				if name != old {
					if _, taken := model[name]; taken {
						clash = true
					}
				}
				for _, id := range ids {
					if owner(id, old) != "" {
						clash = true
					}
				}
				sel := rapid.SampledFrom(vfC04Sels).Draw(t, "safe_search")
				body, _ := json.Marshal(map[string]any{"name": old, "data": json.RawMessage(vfC04BodySel(name, ids, sel))})
				rec := vfC04Do(h, http.MethodPost, "/control/clients/update", string(body))
				trace = append(trace, fmt.Sprintf("update %s->%s %v safe search %q -> %d", old, name, ids, sel, rec.Code))
				if clashNow := !exists; !clashNow && sel != sels[old] {
					vfC04.Class("http:update_changes_safe_search")
				}
				vfC04.Eval()
				if clash {
					rejected = true
					vfC04.Class("http:clash_rejected")
					if rec.Code != http.StatusBadRequest {
						t.Fatalf("clashing update answered %d\nhistory: %s", rec.Code, strings.Join(trace, "; "))
					}
				} else {
					if rec.Code != http.StatusOK {
						t.Fatalf("valid update answered %d %s\nhistory: %s", rec.Code, rec.Body.String(), strings.Join(trace, "; "))
					}
					if fmt.Sprint(model[old]) != fmt.Sprint(ids) {
						moved = true
						vfC04.Class("http:ids_changed")
					}
					delete(model, old)
					delete(sels, old)
					model[name] = ids
					sels[name] = sel
				}
				check("update")
			},
			"resave": func(t *rapid.T) {
				// what the web interface does when another setting of a
				// client is changed: the client is sent back with the
				// identifiers as they were listed
				if len(model) == 0 {
					t.Skip("no clients")
				}
				var names []string
				for n := range model {
					names = append(names, n)
				}
				sort.Strings(names)
				name := rapid.SampledFrom(names).Draw(t, "name")
				listing()
				body, _ := json.Marshal(map[string]any{"name": name, "data": json.RawMessage(vfC04BodySel(name, listedRaw[name], sels[name]))})
				rec := vfC04Do(h, http.MethodPost, "/control/clients/update", string(body))
				trace = append(trace, fmt.Sprintf("resave %s %v -> %d", name, listedRaw[name], rec.Code))
				vfC04.Eval()
				vfC04.Class("http:resave_with_listed_identifiers")
				if rec.Code != http.StatusOK {
					t.Fatalf("sending client %q back with its listed identifiers %v answered %d %s\nhistory: %s",
						name, listedRaw[name], rec.Code, rec.Body.String(), strings.Join(trace, "; "))
				}
				check("resave")
			},
			"delete": func(t *rapid.T) {
				name := rapid.SampledFrom(vfC04Names).Draw(t, "name")
				_, exists := model[name]
				rec := vfC04Do(h, http.MethodPost, "/control/clients/delete", fmt.Sprintf(`{"name":%q}`, name))
				trace = append(trace, fmt.Sprintf("delete %s -> %d", name, rec.Code))
				vfC04.Eval()
				if exists && rec.Code != http.StatusOK {
					t.Fatalf("delete of an existing client answered %d", rec.Code)
				}
				if !exists && rec.Code == http.StatusOK {
					t.Fatalf("delete of a missing client answered 200")
				}
				delete(model, name)
				delete(sels, name)
				check("delete")
			},
			"": func(t *rapid.T) {},
		})
		if rejected || moved {
			vfC04.Nontrivial("http|" + strings.Join(trace, ";"))
		}
		if vfC04.WantSample("http_history") && rejected && moved {
			vfC04.Sample("http_history", trace)
		}
	})
}

var _ = vfC04Canon
