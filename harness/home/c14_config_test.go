//go:build verif && linux

package home

// C14 (configuration file part): every save of AdGuardHome.yaml -- the regular
// configuration write and the rewrite after a schema upgrade -- replaces the
// file atomically.

import (
	"context"
	"fmt"
	"io"
	"net/netip"
	"os"
	"path/filepath"
	"strings"
	"sync"
	"testing"

	"github.com/AdguardTeam/AdGuardHome/internal/client"
	"github.com/AdguardTeam/AdGuardHome/internal/filtering"
	"github.com/AdguardTeam/AdGuardHome/internal/schedule"
	"github.com/AdguardTeam/AdGuardHome/internal/vfkit"
	"github.com/AdguardTeam/golibs/log"
	"gopkg.in/yaml.v3"
	"pgregory.net/rapid"
)

var vfC14 = vfkit.For("C14")

// vfC14SetClients makes the client registry hold exactly n generated clients.
func vfC14SetClients(n, gen int) (err error) {
	ctx := context.Background()
	st := globalContext.clients.storage
	var names []string
	st.RangeByName(func(c *client.Persistent) (cont bool) {
		names = append(names, c.Name)

		return true
	})
	for _, name := range names {
		st.RemoveByName(ctx, name)
	}
	for i := 0; i < n; i++ {
		p := &client.Persistent{
			Name: fmt.Sprintf("client-%d-gen%d", i, gen), UID: client.MustNewUID(),
			IPs:             []netip.Addr{netip.AddrFrom4([4]byte{10, byte(i >> 16), byte(i >> 8), byte(i)})},
			BlockedServices: &filtering.BlockedServices{Schedule: schedule.EmptyWeekly()},
		}
		if err = st.Add(ctx, p); err != nil {
			return err
		}
	}

	return nil
}

// TestVFC14ConfigWrite: sequences of configuration saves of generated sizes.
func TestVFC14ConfigWrite(t *testing.T) {
	vfkit.Begin(t)
	a := vfAssemble()
	if a.err != nil {
		t.Fatalf("assembly failed: %v", a.err)
	}
	confPath := configFilePath()
	dir, name := filepath.Dir(confPath), filepath.Base(confPath)

	rapid.Check(t, func(t *rapid.T) {
		w, err := vfkit.NewWatcher(dir, os.TempDir())
		if err != nil {
			t.Fatalf("VERIF-INCONCLUSIVE watcher: %v", err)
		}
		defer w.Close()

		counts := []int{0, 1, 40, 300}
		pads := []int{0, 10, 100000}
		if vfkit.Thorough() {
			counts = append(counts, 1500)
			pads = append(pads, 2000000, 20000000)
		}
		b0, _ := os.ReadFile(confPath)
		versions := map[string]bool{vfkit.Sum(b0): true}
		rd := vfkit.StartReader(confPath, 2)

		nSaves := rapid.IntRange(1, 5).Draw(t, "n_saves")
		prev := ""
		for i := 0; i < nSaves; i++ {
			n := rapid.SampledFrom(counts).Draw(t, fmt.Sprintf("s%d_clients", i))
			gen := rapid.IntRange(0, 2).Draw(t, fmt.Sprintf("s%d_gen", i))
			pad := rapid.SampledFrom(pads).Draw(t, fmt.Sprintf("s%d_pad", i))
			same := rapid.IntRange(0, 4).Draw(t, fmt.Sprintf("s%d_same", i)) == 0 && i > 0
			if !same {
				if err = vfC14SetClients(n, gen); err != nil {
					t.Fatalf("VERIF-INCONCLUSIVE clients: %v", err)
				}
				config.Language = strings.Repeat("x", pad)
			}
			key := fmt.Sprintf("%d|%d|%d", n, gen, pad)
			if same {
				key = prev
			}
			viaCallback := rapid.Bool().Draw(t, fmt.Sprintf("s%d_via_callback", i))
			cp := vfkit.CheckSave(t, "config write", w, dir, name, func() error {
				if viaCallback {
					// the path every module takes after an API change
					onConfigModified()

					return nil
				}

				return config.write(globalContext.tls)
			}, true)

			b, rerr := os.ReadFile(confPath)
			if rerr != nil {
				t.Fatalf("after save: %v", rerr)
			}
			var doc map[string]any
			if yerr := yaml.Unmarshal(b, &doc); yerr != nil {
				t.Fatalf("saved configuration is not valid YAML: %v", yerr)
			}
			versions[vfkit.Sum(b)] = true

			vfC14.Eval()
			vfC14.ClassN("crash_points", cp)
			vfC14.Class(fmt.Sprintf("config:bytes~10^%d", len(fmt.Sprint(len(b)))-1))
			if i > 0 && key != prev {
				vfC14.Nontrivial(fmt.Sprintf("config|%s|%s|pos%d", prev, key, i))
				vfC14.Class("config:replace_different")
			}
			if vfC14.WantSample("config") {
				vfC14.Sample("config", map[string]any{"clients": n, "bytes": len(b), "crash_points": cp, "position": i, "via_onConfigModified": viaCallback})
			}
			prev = key
		}

		for k, c := range rd.Stop() {
			if !versions[k] {
				t.Fatalf("a concurrent reader saw %s (%d times), which is none of the saved versions", k, c)
			}
			vfC14.ClassN("reader_observations", c)
		}
	})
}

// TestVFC14ConfigConcurrent: overlapping saves of the configuration (two
// administrators, or an administrator and a background worker that saves).
// Every saver sets a field at the start of the file and one at its end to the
// same revision mark before it saves; whatever the interleaving, every state
// of the file a reader can see -- and the final one -- must parse and carry
// one mark at both ends, the name must only ever be replaced by renames, and
// no temporary file may stay behind.
func TestVFC14ConfigConcurrent(t *testing.T) {
	vfkit.Begin(t)
	a := vfAssemble()
	if a.err != nil {
		t.Fatalf("assembly failed: %v", a.err)
	}
	confPath := configFilePath()
	dir, name := filepath.Dir(confPath), filepath.Base(confPath)

	marks := func(b []byte) (early, late string, err error) {
		var doc struct {
			Proxy string `yaml:"http_proxy"`
			Log   struct {
				File string `yaml:"file"`
			} `yaml:"log"`
			Version int `yaml:"schema_version"`
		}
		err = yaml.Unmarshal(b, &doc)
		if err == nil && doc.Version == 0 {
			err = fmt.Errorf("no schema_version at the end of the document")
		}

		return doc.Proxy, doc.Log.File, err
	}

	rapid.Check(t, func(t *rapid.T) {
		nWriters := rapid.IntRange(2, 4).Draw(t, "n_writers")
		nSaves := rapid.IntRange(2, 8).Draw(t, "saves_per_writer")
		pad := rapid.SampledFrom([]int{0, 2000, 200000}).Draw(t, "pad")
		config.Lock()
		config.Language = strings.Repeat("x", pad)
		config.ProxyURL, config.Log.File = "rev-0-0", "rev-0-0"
		config.Unlock()
		if werr := config.write(globalContext.tls); werr != nil {
			t.Fatalf("VERIF-INCONCLUSIVE first save: %v", werr)
		}

		w, err := vfkit.NewWatcher(dir, os.TempDir())
		if err != nil {
			t.Fatalf("VERIF-INCONCLUSIVE watcher: %v", err)
		}
		defer w.Close()
		tmpBefore := vfkit.DirListing(os.TempDir())
		dirBefore := vfkit.DirListing(dir)

		// a reader that judges what it sees
		stop := make(chan struct{})
		var rdWG sync.WaitGroup
		var rdMu sync.Mutex
		var bad []string
		reads := 0
		rdWG.Add(1)
		go func() {
			defer rdWG.Done()
			for {
				select {
				case <-stop:
					return
				default:
				}
				b, rerr := os.ReadFile(confPath)
				if rerr != nil {
					rdMu.Lock()
					bad = append(bad, "read: "+rerr.Error())
					rdMu.Unlock()

					continue
				}
				early, late, perr := marks(b)
				rdMu.Lock()
				reads++
				if perr != nil {
					bad = append(bad, fmt.Sprintf("a file of %d bytes that does not parse: %v", len(b), perr))
				} else if early != late {
					bad = append(bad, fmt.Sprintf("a mix of two versions: http_proxy %q at the start, log.file %q at the end", early, late))
				}
				rdMu.Unlock()
			}
		}()

		var wg sync.WaitGroup
		start := make(chan struct{})
		var errMu sync.Mutex
		var saveErrs []string
		for wi := 1; wi <= nWriters; wi++ {
			wg.Add(1)
			go func(wi int) {
				defer wg.Done()
				<-start
				for j := 1; j <= nSaves; j++ {
					mark := fmt.Sprintf("rev-%d-%d", wi, j)
					config.Lock()
					config.ProxyURL, config.Log.File = mark, mark
					config.Unlock()
					if werr := config.write(globalContext.tls); werr != nil {
						errMu.Lock()
						saveErrs = append(saveErrs, werr.Error())
						errMu.Unlock()
					}
				}
			}(wi)
		}
		close(start)
		wg.Wait()
		close(stop)
		rdWG.Wait()

		evs, derr := w.Drain()
		if derr != nil {
			t.Fatalf("VERIF-INCONCLUSIVE inotify: %v", derr)
		}
		_, cp, aerr := vfkit.CheckAtomicHistory(evs, dir, name)
		if aerr != nil {
			t.Fatalf("overlapping configuration saves (%d writers x %d): %v", nWriters, nSaves, aerr)
		}
		if len(bad) > 0 {
			t.Fatalf("overlapping configuration saves (%d writers x %d): a concurrent reader saw %s (%d such reads of %d); save errors: %v",
				nWriters, nSaves, bad[0], len(bad), reads, saveErrs)
		}
		b, rerr := os.ReadFile(confPath)
		if rerr != nil {
			t.Fatalf("after the saves: %v", rerr)
		}
		early, late, perr := marks(b)
		if perr != nil || early != late {
			t.Fatalf("overlapping configuration saves (%d writers x %d): the file ends as http_proxy %q / log.file %q (parse error %v); save errors: %v",
				nWriters, nSaves, early, late, perr, saveErrs)
		}
		allowed := map[string]bool{name: true}
		for _, n := range dirBefore {
			allowed[n] = true
		}
		for _, n := range vfkit.DirListing(dir) {
			if !allowed[n] {
				t.Fatalf("overlapping configuration saves: leftover file %q next to the configuration", n)
			}
		}
		tb := map[string]bool{}
		for _, n := range tmpBefore {
			tb[n] = true
		}
		for _, n := range vfkit.DirListing(os.TempDir()) {
			if !tb[n] {
				t.Fatalf("overlapping configuration saves: leftover file %q in the staging directory", n)
			}
		}

		vfC14.Eval()
		vfC14.ClassN("crash_points", cp)
		vfC14.Class("config:overlapping_saves")
		vfC14.ClassN("reader_observations", reads)
		vfC14.Nontrivial(fmt.Sprintf("config_concurrent|%d|%d|%d|%d", nWriters, nSaves, pad, len(evs)))
		if vfC14.WantSample("config_concurrent") {
			vfC14.Sample("config_concurrent", map[string]any{"writers": nWriters, "saves_each": nSaves, "bytes": len(b), "reads_judged": reads, "crash_points": cp})
		}
	})
}

// vfC14OldConfig renders a configuration file of an older schema.
func vfC14OldConfig(schema, rules int) (b []byte) {
	sb := &strings.Builder{}
	fmt.Fprintf(sb, "http:\n  address: 127.0.0.1:3000\ndns:\n  bind_hosts:\n    - 127.0.0.1\n  port: 5353\n")
	fmt.Fprintf(sb, "user_rules:\n")
	for i := 0; i < rules; i++ {
		fmt.Fprintf(sb, "  - '||old-%d.example^'\n", i)
	}
	if rules == 0 {
		sb.Reset()
		fmt.Fprintf(sb, "http:\n  address: 127.0.0.1:3000\ndns:\n  bind_hosts:\n    - 127.0.0.1\n  port: 5353\nuser_rules: []\n")
	}
	fmt.Fprintf(sb, "schema_version: %d\n", schema)

	return []byte(sb.String())
}

// TestVFC14ConfigUpgrade: the rewrite of the configuration file after a schema
// upgrade (parseConfig).
func TestVFC14ConfigUpgrade(t *testing.T) {
	vfkit.Begin(t)
	log.SetOutput(io.Discard)
	rapid.Check(t, func(t *rapid.T) {
		dir, err := os.MkdirTemp("", "vfc14up")
		if err != nil {
			t.Fatalf("VERIF-INCONCLUSIVE mkdir: %v", err)
		}
		defer os.RemoveAll(dir)
		globalContext.workDir = dir
		initConfigFilename(options{})
		confPath := configFilePath()

		schema := rapid.IntRange(20, 28).Draw(t, "schema")
		ruleCounts := []int{0, 1, 30, 3000}
		if vfkit.Thorough() {
			ruleCounts = append(ruleCounts, 60000)
		}
		rules := rapid.SampledFrom(ruleCounts).Draw(t, "rules")
		old := vfC14OldConfig(schema, rules)
		if err = os.WriteFile(confPath, old, 0o644); err != nil {
			t.Fatalf("VERIF-INCONCLUSIVE write: %v", err)
		}
		config.fileData = nil

		w, err := vfkit.NewWatcher(dir, os.TempDir())
		if err != nil {
			t.Fatalf("VERIF-INCONCLUSIVE watcher: %v", err)
		}
		defer w.Close()
		rd := vfkit.StartReader(confPath, 2)

		cp := vfkit.CheckSave(t, "config upgrade", w, dir, filepath.Base(confPath), func() error { return parseConfig() }, true)

		b, rerr := os.ReadFile(confPath)
		if rerr != nil {
			t.Fatalf("after upgrade: %v", rerr)
		}
		var doc map[string]any
		if yerr := yaml.Unmarshal(b, &doc); yerr != nil {
			t.Fatalf("upgraded configuration is not valid YAML: %v", yerr)
		}
		if got, _ := doc["user_rules"].([]any); len(got) != rules {
			t.Fatalf("upgrade of %d rules stored %d", rules, len(got))
		}
		versions := map[string]bool{vfkit.Sum(old): true, vfkit.Sum(b): true}
		for k, c := range rd.Stop() {
			if !versions[k] {
				t.Fatalf("a concurrent reader saw %s (%d times) during the upgrade, neither the old nor the new file", k, c)
			}
			vfC14.ClassN("reader_observations", c)
		}

		vfC14.Eval()
		vfC14.ClassN("crash_points", cp)
		vfC14.Class("config:upgrade_rewrite")
		vfC14.Nontrivial(fmt.Sprintf("upgrade|%d|%d", schema, rules))
		if vfC14.WantSample("config_upgrade") {
			vfC14.Sample("config_upgrade", map[string]any{"from_schema": schema, "rules": rules, "bytes": len(b), "crash_points": cp})
		}
	})
}

// TestVFC14ConfigStraceHelper is the traced child.
func TestVFC14ConfigStraceHelper(t *testing.T) {
	if os.Getenv("VERIF_C14_CHILD") == "" {
		t.Skip("not a traced child")
	}
	log.SetOutput(io.Discard)
	dir := os.Getenv("VERIF_C14_CHILD")
	globalContext.workDir = dir
	initConfigFilename(options{})
	confPath := configFilePath()
	// the old-schema file was put there by the parent, outside the trace
	_ = confPath
	config.fileData = nil
	if err := parseConfig(); err != nil {
		t.Fatalf("parseConfig: %v", err)
	}
	if a := vfAssemble(); a.err != nil {
		t.Fatalf("assembly: %v", a.err)
	}
	for i := 0; i < 3; i++ {
		config.Language = strings.Repeat("y", 1000*(i+1)*(i+1)*(i+1))
		if err := config.write(globalContext.tls); err != nil {
			t.Fatalf("write %d: %v", i, err)
		}
	}
}

// TestVFC14ConfigSyscalls checks write/fsync/rename order under strace.
func TestVFC14ConfigSyscalls(t *testing.T) {
	vfkit.Begin(t)
	dir, err := os.MkdirTemp("", "vfc14cs")
	if err != nil {
		t.Fatalf("VERIF-INCONCLUSIVE mkdir: %v", err)
	}
	defer os.RemoveAll(dir)
	if err = os.WriteFile(filepath.Join(dir, "AdGuardHome.yaml"), vfC14OldConfig(27, 2000), 0o644); err != nil {
		t.Fatalf("VERIF-INCONCLUSIVE seed: %v", err)
	}
	n, serr := vfkit.StraceCheck(t, dir, "TestVFC14ConfigStraceHelper", filepath.Join(dir, "AdGuardHome.yaml"))
	if serr != nil {
		t.Fatalf("%v", serr)
	}
	vfC14.EvalN(n)
	vfC14.ClassN("config:syscall_checked_renames", n)
	for i := 0; i < n; i++ {
		vfC14.Nontrivial(fmt.Sprintf("config|strace|%d", i))
	}
}
