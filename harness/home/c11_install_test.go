//go:build verif

package home

// C11 at the moment an administrator account comes into existence: the real
// first-run wizard call (POST /control/install/configure) is run in a process
// of its own -- it starts the DNS server on loopback ports --, and from then on
// the statement must hold: protected routes refuse requests without
// credentials, the install routes are closed, and the account is in the
// configuration file, so that the next start (which reads that file) requires
// authentication too.

import (
	"context"
	"encoding/json"
	"fmt"
	"io"
	"net"
	"net/http"
	"net/http/httptest"
	"net/netip"
	"os"
	"path/filepath"
	"strings"
	"testing"
	"testing/fstest"

	"github.com/AdguardTeam/AdGuardHome/internal/filtering"
	"github.com/AdguardTeam/AdGuardHome/internal/vfkit"
	"github.com/AdguardTeam/golibs/log"
	"github.com/AdguardTeam/golibs/logutil/slogutil"
	"gopkg.in/yaml.v3"
)

// vfFreePort asks the kernel for a free loopback port of the network.
// vfTB is what the helpers need of a *testing.T or a *rapid.T.
type vfTB interface {
	Fatalf(format string, args ...any)
}

func vfFreePort(t vfTB, network string) (port uint16) {
	switch network {
	case "udp":
		c, err := net.ListenPacket("udp", "127.0.0.1:0")
		if err != nil {
			t.Fatalf("VERIF-INCONCLUSIVE free udp port: %v", err)
		}
		defer c.Close()

		return uint16(c.LocalAddr().(*net.UDPAddr).Port)
	default:
		l, err := net.Listen("tcp", "127.0.0.1:0")
		if err != nil {
			t.Fatalf("VERIF-INCONCLUSIVE free tcp port: %v", err)
		}
		defer l.Close()

		return uint16(l.Addr().(*net.TCPAddr).Port)
	}
}

// vfFirstRun puts the process into the state of a program started for the first
// time and returns the handler the web servers serve, the free ports for the
// wizard and the working directory.
func vfFirstRun(t vfTB) (h http.Handler, webPort, dnsPort uint16, dir string) {
	log.SetOutput(io.Discard)
	logger := slogutil.NewDiscardLogger()
	ctx := context.Background()

	dir, err := os.MkdirTemp("", "vfinstall")
	if err != nil {
		t.Fatalf("VERIF-INCONCLUSIVE mkdir: %v", err)
	}

	// a DNS port that is free for both UDP and TCP
	for i := 0; i < 50 && dnsPort == 0; i++ {
		p := vfFreePort(t, "udp")
		if l, lerr := net.Listen("tcp", fmt.Sprintf("127.0.0.1:%d", p)); lerr == nil {
			_ = l.Close()
			dnsPort = p
		}
	}
	if dnsPort == 0 {
		t.Fatalf("VERIF-INCONCLUSIVE no port free for udp and tcp")
	}
	webPort = vfFreePort(t, "tcp")

	// the state of a program started for the first time (see run() in home.go);
	// the clients container refuses to be set up twice in one process
	globalContext.clients = clientsContainer{}
	globalContext.workDir = dir
	initConfigFilename(options{})
	globalContext.mux = http.NewServeMux()
	globalContext.firstRun = true
	config.Users = nil
	config.AuthAttempts = 5
	config.AuthBlockMin = 15
	config.HTTPConfig.Address = netip.AddrPortFrom(netip.MustParseAddr("127.0.0.1"), webPort)
	config.DNS.UpstreamDNS = []string{"127.0.0.1:5"}
	config.DNS.BootstrapDNS = []string{"127.0.0.1:5"}
	config.DNS.HostsFileEnabled = false
	config.Clients.Sources.ARP = false
	config.Clients.Sources.HostsFile = false
	config.Filters = nil
	config.Filtering.FiltersUpdateIntervalHours = 0
	filtering.InitModule()

	sigHdlr := newSignalHandler(make(chan os.Signal, 1), func(_ context.Context) {})
	if err = initContextClients(ctx, logger, sigHdlr); err != nil {
		t.Fatalf("VERIF-INCONCLUSIVE initContextClients: %v", err)
	}
	tlsMgr, err := newTLSManager(ctx, &tlsManagerConfig{
		logger: logger, configModified: onConfigModified, tlsSettings: config.TLS, servePlainDNS: config.DNS.ServePlainDNS,
	})
	if err != nil {
		t.Fatalf("VERIF-INCONCLUSIVE newTLSManager: %v", err)
	}
	globalContext.tls = tlsMgr
	if err = setupDNSFilteringConf(ctx, logger, config.Filtering, tlsMgr); err != nil {
		t.Fatalf("VERIF-INCONCLUSIVE setupDNSFilteringConf: %v", err)
	}
	if err = os.MkdirAll(globalContext.getDataDir(), 0o755); err != nil {
		t.Fatalf("VERIF-INCONCLUSIVE mkdir data: %v", err)
	}
	if globalContext.auth, err = initUsers(); err != nil {
		t.Fatalf("VERIF-INCONCLUSIVE initUsers: %v", err)
	}
	clientFS := fstest.MapFS{
		"build/static/index.html":   {Data: []byte("<html>dashboard</html>")},
		"build/static/login.html":   {Data: []byte("<html>login</html>")},
		"build/static/install.html": {Data: []byte("<html>install</html>")},
	}
	web, err := initWeb(ctx, options{}, clientFS, nil, logger, tlsMgr, false)
	if err != nil {
		t.Fatalf("VERIF-INCONCLUSIVE initWeb: %v", err)
	}
	globalContext.web = web
	tlsMgr.setWebAPI(web)
	h = vfHandler()

	return h, webPort, dnsPort, dir
}

func TestVFC11Install(t *testing.T) {
	vfkit.Begin(t)
	ctx := context.Background()
	h, webPort, dnsPort, dir := vfFirstRun(t)
	defer os.RemoveAll(dir)

	do := func(method, path, body string, auth bool) (rec *httptest.ResponseRecorder) {
		var r *http.Request
		if body != "" {
			r = httptest.NewRequest(method, "http://agh.vf.test"+path, strings.NewReader(body))
			r.Header.Set("Content-Type", "application/json")
		} else {
			r = httptest.NewRequest(method, "http://agh.vf.test"+path, nil)
		}
		r.RemoteAddr = "192.0.2.250:1"
		if auth {
			r.SetBasicAuth(vfAdminUser, vfAdminPass)
		}
		rec = httptest.NewRecorder()
		h.ServeHTTP(rec, r)

		return rec
	}

	// first run: the wizard's routes are open, nobody is an administrator yet
	if rec := do(http.MethodGet, "/control/install/get_addresses", "", false); rec.Code != http.StatusOK {
		t.Fatalf("VERIF-INCONCLUSIVE first run: GET /control/install/get_addresses answered %d", rec.Code)
	}

	body, _ := json.Marshal(map[string]any{
		"web":      map[string]any{"ip": "127.0.0.1", "port": webPort, "status": "", "can_autofix": false},
		"dns":      map[string]any{"ip": "127.0.0.1", "port": dnsPort, "status": "", "can_autofix": false},
		"username": vfAdminUser, "password": vfAdminPass,
	})
	rec := do(http.MethodPost, "/control/install/configure", string(body), false)
	if rec.Code != http.StatusOK {
		t.Fatalf("VERIF-INCONCLUSIVE POST /control/install/configure: %d %s", rec.Code, rec.Body.String())
	}
	defer cleanup(ctx)
	vfC11.Eval()
	vfC11.Class("install:configured")
	vfC11.Nontrivial("install|configured")

	// 1. the running program
	if !globalContext.auth.authRequired() {
		t.Fatalf("after the installation the running program does not require authentication")
	}
	for _, route := range []string{"/control/status", "/control/querylog", "/control/clients", "/control/filtering/status", "/control/stats", "/control/tls/status", "/control/dhcp/status", "/control/profile"} {
		if rec = do(http.MethodGet, route, "", false); rec.Code != http.StatusForbidden {
			t.Fatalf("after the installation GET %s without credentials answered %d, want 403", route, rec.Code)
		}
		vfC11.Eval()
	}
	if rec = do(http.MethodGet, "/control/status", "", true); rec.Code != http.StatusOK {
		t.Fatalf("after the installation GET /control/status with the administrator's credentials answered %d", rec.Code)
	}
	for _, route := range []string{"/control/install/get_addresses", "/install.html"} {
		if rec = do(http.MethodGet, route, "", false); rec.Code != http.StatusForbidden {
			t.Fatalf("after the installation GET %s answered %d, want 403", route, rec.Code)
		}
	}
	if rec = do(http.MethodPost, "/control/install/configure", string(body), false); rec.Code != http.StatusForbidden {
		t.Fatalf("after the installation POST /control/install/configure answered %d, want 403", rec.Code)
	}

	// 2. what the next start will read
	raw, err := os.ReadFile(configFilePath())
	if err != nil {
		t.Fatalf("after the installation there is no configuration file: %v", err)
	}
	var saved struct {
		Users []struct {
			Name     string `yaml:"name"`
			Password string `yaml:"password"`
		} `yaml:"users"`
	}
	if yerr := yaml.Unmarshal(raw, &saved); yerr != nil {
		t.Fatalf("the configuration written by the installation does not parse: %v", yerr)
	}
	hasAdmin := false
	for _, u := range saved.Users {
		hasAdmin = hasAdmin || (u.Name == vfAdminUser && strings.HasPrefix(u.Password, "$2"))
	}
	if !hasAdmin {
		t.Fatalf("the configuration file written by the installation has users: %v -- the administrator %q is not in it; a start on this file "+
			"requires no authentication", saved.Users, vfAdminUser)
	}
	vfC11.Class("install:administrator_in_file")
	vfC11.Sample("install", map[string]any{"dns_port": dnsPort, "users_in_file": len(saved.Users)})
}

// TestVFC11InstallFails: the wizard call fails half-way (a damaged statistics
// database left over in the data directory makes the start of the modules
// fail).  Whatever state that leaves: an administrator account and open
// wizard routes must not exist together.
func TestVFC11InstallFails(t *testing.T) {
	vfkit.Begin(t)
	h, webPort, dnsPort, dir := vfFirstRun(t)
	defer os.RemoveAll(dir)

	if err := os.WriteFile(filepath.Join(globalContext.getDataDir(), "stats.db"), []byte("this is not a database\n"), 0o644); err != nil {
		t.Fatalf("VERIF-INCONCLUSIVE planting stats.db: %v", err)
	}
	do := func(method, path, body string) (rec *httptest.ResponseRecorder) {
		var r *http.Request
		if body != "" {
			r = httptest.NewRequest(method, "http://agh.vf.test"+path, strings.NewReader(body))
			r.Header.Set("Content-Type", "application/json")
		} else {
			r = httptest.NewRequest(method, "http://agh.vf.test"+path, nil)
		}
		r.RemoteAddr = "192.0.2.250:1"
		rec = httptest.NewRecorder()
		func() {
			defer func() {
				if p := recover(); p != nil {
					rec.Code = http.StatusInternalServerError
				}
			}()
			h.ServeHTTP(rec, r)
		}()

		return rec
	}
	configure := func(user string) (code int) {
		body, _ := json.Marshal(map[string]any{
			"web":      map[string]any{"ip": "127.0.0.1", "port": webPort, "status": "", "can_autofix": false},
			"dns":      map[string]any{"ip": "127.0.0.1", "port": dnsPort, "status": "", "can_autofix": false},
			"username": user, "password": vfAdminPass,
		})

		return do(http.MethodPost, "/control/install/configure", string(body)).Code
	}

	code := configure("ghost")
	if code == http.StatusOK {
		t.Fatalf("VERIF-INCONCLUSIVE the installation succeeded although data/stats.db is damaged")
	}
	vfC11.Eval()
	vfC11.Class(fmt.Sprintf("install:failed:%d", code))
	vfC11.Nontrivial("install|failed")

	users := globalContext.auth.usersList()
	wizardOpen := do(http.MethodGet, "/control/install/get_addresses", "").Code == http.StatusOK
	if len(users) > 0 && wizardOpen {
		second := configure("mallory")
		t.Fatalf("after a failed installation (POST /control/install/configure answered %d) the administrator account %q exists and the wizard's routes "+
			"still run without credentials: GET /control/install/get_addresses answered 200, a second configure call answered %d and the accounts are now %v",
			code, users[0].Name, second, vfUserNames(globalContext.auth.usersList()))
	}
	vfC11.Class(fmt.Sprintf("install:failed:accounts=%d:wizard_open=%t", len(users), wizardOpen))
}

func vfUserNames(us []webUser) (names []string) {
	for _, u := range us {
		names = append(names, u.Name)
	}

	return names
}
