//go:build verif

package stats

import (
	"bytes"
	"encoding/json"
	"fmt"
	"net/http"
	"net/http/httptest"
	"os"
	"path/filepath"
	"runtime/debug"
	"sort"
	"strings"
	"sync/atomic"
	"testing"
	"time"

	"github.com/AdguardTeam/AdGuardHome/internal/aghnet"
	"github.com/AdguardTeam/AdGuardHome/internal/vfkit"
	"github.com/AdguardTeam/dnsproxy/proxy"
	"github.com/AdguardTeam/golibs/logutil/slogutil"
	"pgregory.net/rapid"
)

// C09 -- statistics conservation.
//
// The reference model keeps, per absolute hour, how many counted queries fell
// into each of the five result categories (and per client / per domain).  It is
// written from the property statement only: a query is counted once, in the
// hour that is current when it is counted, in one category; the API reports the
// hours of the retention window (now-limit, now]; hours that have ever been
// outside the window may have been dropped for good ("uncertain").

var vfC09 = vfkit.For("C09")

// Result categories of the model.
const (
	vfC09NotFiltered = iota
	vfC09Filtered
	vfC09SafeBrowsing
	vfC09SafeSearch
	vfC09Parental
	vfC09NCat
)

var vfC09CatNames = [vfC09NCat]string{"not_filtered", "filtered", "safebrowsing", "safesearch", "parental"}

// vfC09CatOf maps a valid API result to the model category; ok is false for a
// result that is not one of the five named categories.
func vfC09CatOf(r Result) (cat int, ok bool) {
	switch r {
	case RNotFiltered:
		return vfC09NotFiltered, true
	case RFiltered:
		return vfC09Filtered, true
	case RSafeBrowsing:
		return vfC09SafeBrowsing, true
	case RSafeSearch:
		return vfC09SafeSearch, true
	case RParental:
		return vfC09Parental, true
	default:
		return 0, false
	}
}

// vfC09Counts are counted queries by category, client and domain.
type vfC09Counts struct {
	clients map[string]uint64
	queried map[string]uint64
	blocked map[string]uint64
	cat     [vfC09NCat]uint64
}

func vfC09NewCounts() (c *vfC09Counts) {
	return &vfC09Counts{clients: map[string]uint64{}, queried: map[string]uint64{}, blocked: map[string]uint64{}}
}

func (c *vfC09Counts) total() (n uint64) {
	for _, v := range c.cat {
		n += v
	}

	return n
}

// addTo adds c to dst.
func (c *vfC09Counts) addTo(dst *vfC09Counts) {
	for i, v := range c.cat {
		dst.cat[i] += v
	}
	for k, n := range c.clients {
		dst.clients[k] += n
	}
	for k, n := range c.queried {
		dst.queried[k] += n
	}
	for k, n := range c.blocked {
		dst.blocked[k] += n
	}
}

// Indexes into the [5]uint64 vectors used by the read check.
const (
	vfC09Tot = iota
	vfC09Flt
	vfC09SB
	vfC09SS
	vfC09Par
)

var vfC09VecNames = [5]string{
	"num_dns_queries", "num_blocked_filtering", "num_replaced_safebrowsing", "num_replaced_safesearch",
	"num_replaced_parental",
}

// vec returns (total, filtered, safebrowsing, safesearch, parental).
func (c *vfC09Counts) vec() (v [5]uint64) {
	return [5]uint64{c.total(), c.cat[vfC09Filtered], c.cat[vfC09SafeBrowsing], c.cat[vfC09SafeSearch], c.cat[vfC09Parental]}
}

func vfC09AddVec(a, b [5]uint64) (v [5]uint64) {
	for i := range a {
		v[i] = a[i] + b[i]
	}

	return v
}

// vfC09Hour is what the model knows about one hour.
type vfC09Hour struct {
	// sure are the counted queries that must be reported while the hour is in
	// the window.
	sure *vfC09Counts

	// opt are counted queries of which the statement does not say whether they
	// survive: those counted before the statistics were disabled through the
	// deprecated API ("0 means that the statistics is disabled").
	opt *vfC09Counts

	// uncertain is set once the hour has been outside the retention window:
	// from then on the implementation may have dropped it.
	uncertain bool
}

// vfC09Model is the reference model of the statistics module.
type vfC09Model struct {
	hours   map[uint32]*vfC09Hour
	limit   time.Duration
	now     uint32
	enabled bool
}

func (m *vfC09Model) limitHours() (n uint32) { return uint32(m.limit / time.Hour) }

// firstHour is the oldest hour of the retention window (now-limit, now].
func (m *vfC09Model) firstHour() (h uint32) { return m.now - m.limitHours() + 1 }

// settle marks every hour that is outside the current window as possibly
// dropped.  It must be called after every change of now or limit.
func (m *vfC09Model) settle() (expiredWithData bool) {
	first := m.firstHour()
	for h, mh := range m.hours {
		if h < first && !mh.uncertain {
			mh.uncertain = true
			expiredWithData = true
		}
	}

	return expiredWithData
}

// count adds n counted queries to the current hour.
func (m *vfC09Model) count(cat int, client, domain string, n uint64) {
	mh := m.hours[m.now]
	if mh == nil {
		mh = &vfC09Hour{sure: vfC09NewCounts(), opt: vfC09NewCounts()}
		m.hours[m.now] = mh
	}
	mh.sure.cat[cat] += n
	mh.sure.clients[client] += n
	if cat == vfC09NotFiltered {
		mh.sure.queried[domain] += n
	} else {
		mh.sure.blocked[domain] += n
	}
}

// makeOptional turns everything counted so far into counts that may or may not
// be reported any more.  The first hourly read that shows an hour decides which
// (see vfC09CheckRead): kept counts stay, dropped counts stay away.
func (m *vfC09Model) makeOptional() {
	for _, mh := range m.hours {
		mh.sure.addTo(mh.opt)
		mh.sure = vfC09NewCounts()
	}
}

// vfC09Resp is the harness' own view of the GET /control/stats document.
type vfC09Resp struct {
	NumDNSQueries           *uint64 `json:"num_dns_queries"`
	NumBlockedFiltering     *uint64 `json:"num_blocked_filtering"`
	NumReplacedSafebrowsing *uint64 `json:"num_replaced_safebrowsing"`
	NumReplacedSafesearch   *uint64 `json:"num_replaced_safesearch"`
	NumReplacedParental     *uint64 `json:"num_replaced_parental"`

	TimeUnits string `json:"time_units"`

	DNSQueries           []uint64 `json:"dns_queries"`
	BlockedFiltering     []uint64 `json:"blocked_filtering"`
	ReplacedSafebrowsing []uint64 `json:"replaced_safebrowsing"`
	ReplacedParental     []uint64 `json:"replaced_parental"`

	TopQueried []map[string]uint64 `json:"top_queried_domains"`
	TopClients []map[string]uint64 `json:"top_clients"`
	TopBlocked []map[string]uint64 `json:"top_blocked_domains"`
}

// vfC09ReadInfo says what a checked read looked like (for coverage counters).
type vfC09ReadInfo struct {
	mode            string
	hoursWithData   int
	uncertainInWin  bool
	optionalInWin   bool
	uncertainShown  int
	uncertainHidden int
	optShown        int
	optHidden       int
	total           uint64
}

func vfC09TopMap(name string, l []map[string]uint64) (m map[string]uint64, err error) {
	m = map[string]uint64{}
	for _, e := range l {
		if len(e) != 1 {
			return nil, fmt.Errorf("%s: entry %v does not have exactly one key", name, e)
		}
		for k, v := range e {
			if _, dup := m[k]; dup {
				return nil, fmt.Errorf("%s: key %q listed twice", name, k)
			}
			m[k] = v
		}
	}

	return m, nil
}

func vfC09CmpTop(name string, got []map[string]uint64, want map[string]uint64) (err error) {
	gm, err := vfC09TopMap(name, got)
	if err != nil {
		return err
	}
	for k, v := range want {
		if gm[k] != v {
			return fmt.Errorf("%s[%q] = %d, want %d (counted queries in the window)", name, k, gm[k], v)
		}
	}
	for k, v := range gm {
		if _, ok := want[k]; !ok {
			return fmt.Errorf("%s[%q] = %d, but no counted query in the window has it", name, k, v)
		}
	}

	return nil
}

// vfC09CheckRead compares one GET /control/stats document with the model.
func vfC09CheckRead(m *vfC09Model, body []byte) (info vfC09ReadInfo, err error) {
	r := &vfC09Resp{}
	dec := json.NewDecoder(bytes.NewReader(body))
	err = dec.Decode(r)
	if err != nil {
		return info, fmt.Errorf("response is not the documented JSON: %w: %q", err, body)
	}
	if r.NumDNSQueries == nil || r.NumBlockedFiltering == nil || r.NumReplacedSafebrowsing == nil ||
		r.NumReplacedSafesearch == nil || r.NumReplacedParental == nil {
		return info, fmt.Errorf("response lacks a total: %q", body)
	}

	tot := [5]uint64{
		*r.NumDNSQueries, *r.NumBlockedFiltering, *r.NumReplacedSafebrowsing, *r.NumReplacedSafesearch,
		*r.NumReplacedParental,
	}
	info.mode = r.TimeUnits
	info.total = tot[vfC09Tot]

	limit := m.limitHours()
	first := m.firstHour()

	// Bounds from the model: lo counts what must be reported (sure counts of the
	// hours that were always inside the window), hi everything counted in an
	// hour of the window.
	var lo, hi [5]uint64
	inWin := []uint32{}
	for h, mh := range m.hours {
		if h < first || h > m.now {
			continue
		}
		inWin = append(inWin, h)
		hi = vfC09AddVec(hi, vfC09AddVec(mh.sure.vec(), mh.opt.vec()))
		if mh.uncertain {
			info.uncertainInWin = true
		} else {
			lo = vfC09AddVec(lo, mh.sure.vec())
		}
		if mh.opt.total() > 0 {
			info.optionalInWin = true
		}
	}
	sort.Slice(inWin, func(i, j int) bool { return inWin[i] < inWin[j] })
	info.hoursWithData = len(inWin)

	for i := range tot {
		if tot[i] < lo[i] {
			return info, fmt.Errorf("%s = %d, but %d queries were counted in hours that never left the window (lost counts)",
				vfC09VecNames[i], tot[i], lo[i])
		}
		if tot[i] > hi[i] {
			return info, fmt.Errorf("%s = %d, but only %d queries were counted in hours of the window (%d, %d] "+
				"(double count or stale data)", vfC09VecNames[i], tot[i], hi[i], int64(first)-1, m.now)
		}
	}
	if s := tot[vfC09Flt] + tot[vfC09SB] + tot[vfC09SS] + tot[vfC09Par]; s > tot[vfC09Tot] {
		return info, fmt.Errorf("blocked categories sum to %d > num_dns_queries %d", s, tot[vfC09Tot])
	}

	series := [5][]uint64{r.DNSQueries, r.BlockedFiltering, r.ReplacedSafebrowsing, nil, r.ReplacedParental}
	seriesNames := [5]string{"dns_queries", "blocked_filtering", "replaced_safebrowsing", "", "replaced_parental"}
	var sum [5]uint64
	for c, s := range series {
		for _, v := range s {
			sum[c] += v
		}
	}

	// reported collects the counts that the response is known to contain.
	reported := vfC09NewCounts()
	exact := false

	switch r.TimeUnits {
	case "hours":
		for c, s := range series {
			if c != vfC09SS && len(s) != int(limit) {
				return info, fmt.Errorf("hourly series %s has %d entries, the window has %d hours", seriesNames[c], len(s), limit)
			}
		}
		for i := 0; i < int(limit); i++ {
			h := first + uint32(i)
			mh := m.hours[h]
			var got [5]uint64
			for c, s := range series {
				if c != vfC09SS {
					got[c] = s[i]
				}
			}
			if mh == nil {
				if got != [5]uint64{} {
					return info, fmt.Errorf("hour %d (series index %d): (dns_queries, blocked_filtering, replaced_safebrowsing, "+
						"replaced_parental) = (%d, %d, %d, %d), but nothing was counted in that hour", h, i,
						got[vfC09Tot], got[vfC09Flt], got[vfC09SB], got[vfC09Par])
				}

				continue
			}

			// The admissible contents of the hour, most complete first.
			all := vfC09AddVec(mh.sure.vec(), mh.opt.vec())
			sure := mh.sure.vec()
			all[vfC09SS], sure[vfC09SS] = 0, 0
			hasOpt := mh.opt.total() > 0
			switch {
			case got == all:
				mh.sure.addTo(reported)
				mh.opt.addTo(reported)
				if mh.uncertain {
					info.uncertainShown++
				}
				if hasOpt {
					info.optShown++
					// The counts were kept: from now on they are counts like
					// any other and may only leave with their hour.
					mh.opt.addTo(mh.sure)
					mh.opt = vfC09NewCounts()
				}
			case hasOpt && got == sure:
				mh.sure.addTo(reported)
				info.optHidden++
				// The counts were dropped: they must not come back.
				mh.opt = vfC09NewCounts()
				if mh.uncertain && mh.sure.total() > 0 {
					info.uncertainShown++
				}
			case mh.uncertain && got == [5]uint64{}:
				// An hour that has been outside the window may be gone.
				info.uncertainHidden++
			default:
				alt := ""
				if hasOpt {
					alt += fmt.Sprintf(" or (%d, %d, %d, %d) (without what was counted before the statistics were disabled)",
						sure[vfC09Tot], sure[vfC09Flt], sure[vfC09SB], sure[vfC09Par])
				}
				if mh.uncertain {
					alt += " or all zero (hour has been outside the window)"
				}

				return info, fmt.Errorf("hour %d (series index %d): (dns_queries, blocked_filtering, replaced_safebrowsing, "+
					"replaced_parental) = (%d, %d, %d, %d), want (%d, %d, %d, %d)%s", h, i,
					got[vfC09Tot], got[vfC09Flt], got[vfC09SB], got[vfC09Par],
					all[vfC09Tot], all[vfC09Flt], all[vfC09SB], all[vfC09Par], alt)
			}
		}
		for c := range series {
			if c != vfC09SS && sum[c] != tot[c] {
				return info, fmt.Errorf("hourly series %s sums to %d, %s = %d", seriesNames[c], sum[c], vfC09VecNames[c], tot[c])
			}
		}
		exact = true
	case "days":
		for c := range series {
			if c != vfC09SS && sum[c] > tot[c] {
				return info, fmt.Errorf("daily series %s sums to %d > %s = %d", seriesNames[c], sum[c], vfC09VecNames[c], tot[c])
			}
		}
		if !info.uncertainInWin && !info.optionalInWin {
			for _, h := range inWin {
				m.hours[h].sure.addTo(reported)
			}
			exact = true
		}
	default:
		return info, fmt.Errorf("time_units = %q", r.TimeUnits)
	}

	if !exact {
		return info, nil
	}

	// The set of reported counts is known: everything is an equality.
	want := reported.vec()
	for i := range tot {
		if tot[i] != want[i] {
			return info, fmt.Errorf("%s = %d, want %d (sum over the reported hours of the window)", vfC09VecNames[i], tot[i], want[i])
		}
	}
	err = vfC09CmpTop("top_clients", r.TopClients, reported.clients)
	if err != nil {
		return info, err
	}
	err = vfC09CmpTop("top_queried_domains", r.TopQueried, reported.queried)
	if err != nil {
		return info, err
	}
	err = vfC09CmpTop("top_blocked_domains", r.TopBlocked, reported.blocked)
	if err != nil {
		return info, err
	}

	return info, nil
}

// vfC09Sys is the system under test of one case: a stats module on a private
// database file with a harness-owned hour clock.
type vfC09Sys struct {
	s        *StatsCtx
	handlers map[string]http.HandlerFunc
	dir      string
	clock    atomic.Uint32
	// afterClockRead, if set, is run once by the next reader of the clock
	// after it has taken its reading.
	afterClockRead atomic.Pointer[func()]
}

func vfC09NewSys(startHour uint32) (x *vfC09Sys, err error) {
	dir, err := os.MkdirTemp("", "vfc09-")
	if err != nil {
		return nil, err
	}
	x = &vfC09Sys{dir: dir}
	x.clock.Store(startHour)

	return x, nil
}

// open creates the module as the application does at start-up.  The periodic
// flush goroutine is not started: the harness calls flush, its body, itself.
func (x *vfC09Sys) open(limit time.Duration, enabled bool) (err error) {
	ign, err := aghnet.NewIgnoreEngine(nil)
	if err != nil {
		return err
	}
	x.handlers = map[string]http.HandlerFunc{}
	x.s, err = New(Config{
		Logger: slogutil.NewDiscardLogger(),
		UnitID: func() (id uint32) {
			id = x.clock.Load()
			if h := x.afterClockRead.Swap(nil); h != nil {
				// the harness owns the schedule here: the caller has read the
				// hour and is held before it goes on
				(*h)()
			}

			return id
		},
		ConfigModified:    func() {},
		ShouldCountClient: func([]string) (ok bool) { return true },
		HTTPRegister: func(method, url string, h http.HandlerFunc) {
			x.handlers[method+" "+url] = h
		},
		Ignored:  ign,
		Filename: filepath.Join(x.dir, "stats.db"),
		Limit:    limit,
		Enabled:  enabled,
	})
	if err != nil {
		return err
	}
	x.s.initWeb()

	return nil
}

func (x *vfC09Sys) destroy() {
	if x.s != nil {
		_ = x.s.Close()
	}
	_ = os.RemoveAll(x.dir)
}

// do performs an API request against the registered handler.
func (x *vfC09Sys) do(method, path, body string) (code int, out []byte, err error) {
	h := x.handlers[method+" "+path]
	if h == nil {
		return 0, nil, fmt.Errorf("no handler registered for %s %s", method, path)
	}
	req := httptest.NewRequest(method, path, strings.NewReader(body))
	if body != "" {
		req.Header.Set("Content-Type", "application/json")
	}
	rec := httptest.NewRecorder()
	func() {
		defer func() {
			if p := recover(); p != nil {
				err = fmt.Errorf("panic in %s %s: %v\n%s", method, path, p, debug.Stack())
			}
		}()
		h(rec, req)
	}()

	return rec.Code, rec.Body.Bytes(), err
}

// vfC09Hist is one generated history: system, model, trace and the facts that
// decide its classes.
type vfC09Hist struct {
	x     *vfC09Sys
	m     *vfC09Model
	trace []string

	// phase machines for the non-trivial rule
	restartPhase int // 0 none, 1 counted update, 2 restart after it, 3 counted update after that
	flags        map[string]bool
	reads        int
}

func (hst *vfC09Hist) logf(format string, args ...any) {
	hst.trace = append(hst.trace, fmt.Sprintf(format, args...))
}

func (hst *vfC09Hist) tail() (s string) {
	tr := hst.trace
	if len(tr) > 80 {
		tr = tr[len(tr)-80:]
	}

	return strings.Join(tr, "; ")
}

type vfC09Fataler interface {
	Fatalf(format string, args ...any)
}

// update sends n identical entries and counts them in the model if the entry
// is one that the module is documented to count.
func (hst *vfC09Hist) update(t vfC09Fataler, e *Entry, n int) {
	cat, valid := vfC09CatOf(e.Result)
	valid = valid && e.Client != "" && e.Domain != ""
	counted := valid && hst.m.enabled
	hst.logf("update{res=%d client=%q domain=%q ups=%d}x%d", int(e.Result), e.Client, e.Domain, len(e.UpstreamStats), n)
	func() {
		defer func() {
			if p := recover(); p != nil {
				t.Fatalf("panic in Update: %v\n%s\nhistory: %s", p, debug.Stack(), hst.tail())
			}
		}()
		for i := 0; i < n; i++ {
			hst.x.s.Update(e)
		}
	}()
	switch {
	case counted:
		hst.m.count(cat, e.Client, e.Domain, uint64(n))
		hst.flags["counted_update"] = true
		if hst.restartPhase == 0 {
			hst.restartPhase = 1
		} else if hst.restartPhase == 2 {
			hst.restartPhase = 3
		}
	case !valid:
		hst.flags["invalid_update"] = true
	default:
		hst.flags["disabled_update"] = true
	}
}

// advance moves the clock k hours ahead and runs the body of the hourly worker.
func (hst *vfC09Hist) advance(t vfC09Fataler, k uint32) {
	hst.logf("advance{%dh}", k)
	hadData := hst.m.hours[hst.m.now] != nil
	hst.m.now += k
	hst.x.clock.Store(hst.m.now)
	func() {
		defer func() {
			if p := recover(); p != nil {
				t.Fatalf("panic in flush: %v\n%s\nhistory: %s", p, debug.Stack(), hst.tail())
			}
		}()
		hst.x.s.flush()
	}()
	if k > 0 && hadData {
		hst.flags["rollover_with_data"] = true
		if k > 1 {
			hst.flags["gap_rollover_with_data"] = true
		}
	}
	if k == 0 {
		hst.flags["idle_flush"] = true
	}
	if hst.m.settle() {
		hst.flags["expired_with_data"] = true
	}
}

// restart closes the module cleanly, lets down hours pass, and starts it again
// on the same file with the same configuration.
func (hst *vfC09Hist) restart(t vfC09Fataler, down uint32) { hst.restartLate(t, 0, down) }

// restartLate is a clean restart whose shutdown comes late hours after the last
// run of the flush worker: the hour has changed but the worker (it looks once
// a second) has not seen it yet.  What was counted stays in its own hour.
func (hst *vfC09Hist) restartLate(t vfC09Fataler, late, down uint32) {
	hst.logf("restart{late=%dh,down=%dh}", late, down)
	cur := hst.m.hours[hst.m.now]
	if late > 0 {
		hst.m.now += late
		hst.x.clock.Store(hst.m.now)
		hst.flags["shutdown_before_flush_saw_the_new_hour"] = true
		if cur != nil {
			hst.flags["shutdown_before_flush_saw_the_new_hour_with_data"] = true
		}
	}
	err := hst.x.s.Close()
	if err != nil {
		t.Fatalf("clean shutdown failed: %v\nhistory: %s", err, hst.tail())
	}
	hst.x.s = nil
	hst.m.now += down
	hst.x.clock.Store(hst.m.now)
	err = hst.x.open(hst.m.limit, hst.m.enabled)
	if err != nil {
		t.Fatalf("restart failed: %v\nhistory: %s", err, hst.tail())
	}
	if cur != nil && down == 0 {
		hst.flags["same_hour_restart_with_data"] = true
	}
	if down > 0 {
		hst.flags["downtime_restart"] = true
	}
	if hst.restartPhase == 1 {
		hst.restartPhase = 2
	}
	if hst.m.settle() {
		hst.flags["expired_with_data"] = true
	}
}

// putConfig uses PUT /control/stats/config/update.
func (hst *vfC09Hist) putConfig(t vfC09Fataler, ivlMs float64, enabled string, wantOK bool) {
	body := fmt.Sprintf(`{"enabled":%s,"interval":%s,"ignored":[]}`, enabled, vfC09FormatFloat(ivlMs))
	hst.logf("put_config%s", body)
	code, out, err := hst.x.do(http.MethodPut, "/control/stats/config/update", body)
	if err != nil {
		t.Fatalf("%v\nhistory: %s", err, hst.tail())
	}
	if !wantOK {
		if code/100 == 2 {
			t.Fatalf("invalid configuration %s accepted with %d\nhistory: %s", body, code, hst.tail())
		}
		hst.flags["config_rejected"] = true

		return
	}
	if code != http.StatusOK {
		t.Fatalf("valid configuration %s rejected: %d %s\nhistory: %s", body, code, out, hst.tail())
	}
	old := hst.m.limit
	hst.m.limit = time.Duration(ivlMs) * time.Millisecond
	hst.m.enabled = enabled == "true"
	hst.noteLimitChange(old)
}

func (hst *vfC09Hist) noteLimitChange(old time.Duration) {
	switch {
	case hst.m.limit > old:
		hst.flags["limit_increase"] = true
	case hst.m.limit < old:
		hst.flags["limit_decrease"] = true
	}
	if hst.m.settle() {
		hst.flags["expired_with_data"] = true
	}
}

// legacyConfig uses the deprecated POST /control/stats_config (interval in
// days; 0 disables the statistics and clears them).
func (hst *vfC09Hist) legacyConfig(t vfC09Fataler, days uint32, wantOK bool) {
	body := fmt.Sprintf(`{"interval":%d}`, days)
	hst.logf("legacy_config%s", body)
	code, out, err := hst.x.do(http.MethodPost, "/control/stats_config", body)
	if err != nil {
		t.Fatalf("%v\nhistory: %s", err, hst.tail())
	}
	if !wantOK {
		if code/100 == 2 {
			t.Fatalf("invalid interval %s accepted with %d\nhistory: %s", body, code, hst.tail())
		}
		hst.flags["config_rejected"] = true

		return
	}
	if code != http.StatusOK {
		t.Fatalf("valid interval %s rejected: %d %s\nhistory: %s", body, code, out, hst.tail())
	}
	if days == 0 {
		// "0 means that the statistics is disabled": nothing is counted from
		// now on; whether what was counted before is still reported is not
		// stated, so it becomes optional.
		hst.m.enabled = false
		if len(hst.m.hours) > 0 {
			hst.flags["legacy_disable_with_data"] = true
		}
		hst.m.makeOptional()
		hst.flags["legacy_disable"] = true

		return
	}
	old := hst.m.limit
	hst.m.enabled = true
	hst.m.limit = time.Duration(days) * 24 * time.Hour
	hst.noteLimitChange(old)
}

// reset uses POST /control/stats_reset.
func (hst *vfC09Hist) reset(t vfC09Fataler) {
	hst.logf("reset")
	code, out, err := hst.x.do(http.MethodPost, "/control/stats_reset", "")
	if err != nil {
		t.Fatalf("%v\nhistory: %s", err, hst.tail())
	}
	if code != http.StatusOK {
		t.Fatalf("reset failed: %d %s\nhistory: %s", code, out, hst.tail())
	}
	if len(hst.m.hours) > 0 {
		hst.flags["clear_with_data"] = true
	}
	hst.m.hours = map[uint32]*vfC09Hour{}
}

// read gets the statistics and the configuration and compares both with the
// model.
func (hst *vfC09Hist) read(t vfC09Fataler) {
	code, out, err := hst.x.do(http.MethodGet, "/control/stats", "")
	if err != nil {
		t.Fatalf("%v\nhistory: %s", err, hst.tail())
	}
	if code != http.StatusOK {
		t.Fatalf("GET /control/stats: %d %s\nhistory: %s", code, out, hst.tail())
	}
	info, err := vfC09CheckRead(hst.m, out)
	if err != nil {
		t.Fatalf("GET /control/stats at hour %d, limit %dh: %v\nhistory: %s", hst.m.now, hst.m.limitHours(), err, hst.tail())
	}
	hst.reads++
	hst.flags["mode_"+info.mode] = true
	if info.total > 0 {
		hst.flags["mode_"+info.mode+"_with_data"] = true
	}
	if info.hoursWithData >= 2 {
		hst.flags["two_hours_in_window"] = true
	}
	if info.uncertainInWin {
		hst.flags["uncertain_in_window"] = true
	}
	if info.uncertainShown > 0 {
		hst.flags["uncertain_hour_reported"] = true
	}
	if info.uncertainHidden > 0 {
		hst.flags["uncertain_hour_gone"] = true
	}
	if info.optShown > 0 {
		hst.flags["optional_counts_reported"] = true
	}
	if info.optHidden > 0 {
		hst.flags["optional_counts_gone"] = true
	}

	code, out, err = hst.x.do(http.MethodGet, "/control/stats/config", "")
	if err != nil {
		t.Fatalf("%v\nhistory: %s", err, hst.tail())
	}
	var conf struct {
		Interval *float64 `json:"interval"`
		Enabled  *bool    `json:"enabled"`
	}
	if code != http.StatusOK || json.Unmarshal(out, &conf) != nil || conf.Interval == nil || conf.Enabled == nil {
		t.Fatalf("GET /control/stats/config: %d %s\nhistory: %s", code, out, hst.tail())
	}
	if *conf.Interval != float64(hst.m.limit/time.Millisecond) || *conf.Enabled != hst.m.enabled {
		t.Fatalf("configuration is (interval %v ms, enabled %t), want (%d ms, %t)\nhistory: %s",
			*conf.Interval, *conf.Enabled, hst.m.limit/time.Millisecond, hst.m.enabled, hst.tail())
	}
}

func vfC09FormatFloat(f float64) (s string) {
	b, _ := json.Marshal(f)

	return string(b)
}

// vfC09LimitsH are the retention limits (in hours) the generator draws: the
// four of the UI and custom ones around the hour/day presentation switch.
var vfC09LimitsH = []uint32{
	24, 24, 24, 168, 168, 720, 2160,
	1, 2, 3, 23, 25, 48, 100, 167, 169, 191, 192, 193, 200, 8760,
}

var vfC09Clients = []string{"192.0.2.1", "192.0.2.2", "198.51.100.7", "2001:db8::1", "cid-a", "laptop"}

// vfC09Domains are the names asked for; among them names that are valid on
// the wire though no registrable domain: an address literal, a numeric last
// label, single labels with an underscore or a hyphen at the edge.
var vfC09Domains = []string{
	"a.test", "b.test", "ads.example", "cdn.example.com", "www.example.org", "x1.co.uk",
	"192.168.1.1", "backup.2024", "_gateway", "printer_2", "host-.lan-", "xn--e1afmkfd.xn--p1ai",
}

var vfC09Upstreams = []string{"192.0.2.53:53", "tls://dns.example", "https://dns.example/dns-query"}

// vfC09DrawEntry draws an update: mostly a countable entry, sometimes one that
// lacks a category, a client or a domain.
func vfC09DrawEntry(t *rapid.T) (e *Entry) {
	res := rapid.SampledFrom([]Result{
		RNotFiltered, RNotFiltered, RNotFiltered, RFiltered, RFiltered, RSafeBrowsing, RSafeSearch, RParental,
		RNotFiltered, RFiltered, RSafeBrowsing, RSafeSearch, RParental,
		0, RParental + 1, 100,
	}).Draw(t, "result")
	e = &Entry{
		Result:         res,
		Client:         rapid.SampledFrom(vfC09Clients).Draw(t, "client"),
		Domain:         rapid.SampledFrom(vfC09Domains).Draw(t, "domain"),
		ProcessingTime: time.Duration(rapid.IntRange(0, 2_000_000).Draw(t, "proc_us")) * time.Microsecond,
	}
	switch rapid.IntRange(0, 29).Draw(t, "blank") {
	case 0:
		e.Client = ""
	case 1:
		e.Domain = ""
	}
	nUps := rapid.IntRange(0, 2).Draw(t, "n_upstreams")
	for i := 0; i < nUps; i++ {
		us := &proxy.UpstreamStatistics{
			Address:       rapid.SampledFrom(vfC09Upstreams).Draw(t, "ups_addr"),
			QueryDuration: time.Duration(rapid.IntRange(0, 500_000).Draw(t, "ups_us")) * time.Microsecond,
		}
		switch rapid.IntRange(0, 5).Draw(t, "ups_kind") {
		case 0:
			us.IsCached = true
		case 1:
			us.Error = fmt.Errorf("upstream failed")
		}
		e.UpstreamStats = append(e.UpstreamStats, us)
	}

	return e
}

func vfC09DrawLimit(t *rapid.T) (h uint32) {
	return rapid.SampledFrom(vfC09LimitsH).Draw(t, "limit_h")
}

// vfC09NewHist starts a history: a fresh database, model and clock.
func vfC09NewHist(t vfC09Fataler, startHour uint32, limitH uint32, enabled bool) (hst *vfC09Hist) {
	x, err := vfC09NewSys(startHour)
	if err != nil {
		t.Fatalf("VERIF-INCONCLUSIVE cannot create temp dir: %v", err)
	}
	hst = &vfC09Hist{
		x: x,
		m: &vfC09Model{
			hours:   map[uint32]*vfC09Hour{},
			limit:   time.Duration(limitH) * time.Hour,
			now:     startHour,
			enabled: enabled,
		},
		flags: map[string]bool{},
	}
	hst.logf("start{hour=%d limit=%dh enabled=%t}", startHour, limitH, enabled)
	err = x.open(hst.m.limit, enabled)
	if err != nil {
		x.destroy()
		t.Fatalf("VERIF-INCONCLUSIVE cannot create the statistics module: %v", err)
	}

	return hst
}

// account records the coverage of a finished history.
func (hst *vfC09Hist) account() {
	vfC09.Eval()
	vfC09.ClassN("reads_checked", hst.reads)
	keys := make([]string, 0, len(hst.flags))
	for k := range hst.flags {
		keys = append(keys, k)
	}
	sort.Strings(keys)
	for _, k := range keys {
		vfC09.Class("hist:" + k)
	}
	rollover := hst.flags["two_hours_in_window"]
	restart := hst.restartPhase == 3
	if restart {
		vfC09.Class("hist:restart_between_updates")
	}
	if rollover || restart {
		vfC09.Class("nontrivial")
		vfC09.Nontrivial(strings.Join(hst.trace, ";"))
	}
	for _, cls := range []string{"rollover", "restart", "uncertain", "days"} {
		var is bool
		switch cls {
		case "rollover":
			is = rollover
		case "restart":
			is = restart
		case "uncertain":
			is = hst.flags["uncertain_hour_reported"] || hst.flags["uncertain_hour_gone"]
		case "days":
			is = hst.flags["mode_days_with_data"]
		}
		if is && vfC09.WantSample("history_"+cls) {
			tr := hst.trace
			if len(tr) > 60 {
				tr = tr[:60]
			}
			vfC09.Sample("history_"+cls, map[string]any{
				"ops": tr, "ops_total": len(hst.trace), "reads_checked": hst.reads,
				"final_hour": hst.m.now, "final_limit_h": hst.m.limitHours(),
			})
		}
	}
}

var vfC09AdvanceHours = []uint32{1, 1, 1, 1, 2, 5, 23, 24, 25, 30, 167, 168, 800}

// TestVFC09History: sequential histories of updates, hour advances, restarts,
// limit changes and clears; after every step GET /control/stats must agree with
// the per-hour reference model.
func TestVFC09History(t *testing.T) {
	vfkit.Begin(t)
	rapid.Check(t, func(t *rapid.T) {
		start := uint32(480_000 + rapid.IntRange(0, 47).Draw(t, "start_hour_offset"))
		hst := vfC09NewHist(t, start, vfC09DrawLimit(t), rapid.IntRange(0, 9).Draw(t, "start_disabled") != 0)
		defer hst.x.destroy()

		update := func(t *rapid.T) {
			hst.update(t, vfC09DrawEntry(t), rapid.IntRange(1, 3).Draw(t, "times"))
		}
		t.Repeat(map[string]func(*rapid.T){
			"": func(t *rapid.T) { hst.read(t) },
			// several keys for the frequent operations: rapid picks keys uniformly
			"update_1": update,
			"update_2": update,
			"update_3": update,
			"update_4": update,
			"update_5": update,
			"advance_1h": func(t *rapid.T) {
				hst.advance(t, 1)
			},
			"advance_any": func(t *rapid.T) {
				hst.advance(t, rapid.SampledFrom(vfC09AdvanceHours).Draw(t, "hours"))
			},
			"idle_flush": func(t *rapid.T) {
				hst.advance(t, 0)
			},
			"restart": func(t *rapid.T) {
				late := rapid.SampledFrom([]uint32{0, 0, 0, 1, 1, 2, 25}).Draw(t, "late_hours")
				hst.restartLate(t, late, rapid.SampledFrom([]uint32{0, 0, 0, 0, 1, 2, 24, 30, 800}).Draw(t, "down_hours"))
			},
			"put_config": func(t *rapid.T) {
				switch rapid.IntRange(0, 11).Draw(t, "bad") {
				case 0:
					ms := rapid.SampledFrom([]float64{0, 1, 1_800_000, 3_599_999, 366 * 86_400_000, -3_600_000}).Draw(t, "bad_ms")
					hst.putConfig(t, ms, "true", false)
				case 1:
					hst.putConfig(t, 86_400_000, "null", false)
				default:
					en := "true"
					if rapid.IntRange(0, 7).Draw(t, "disable") == 0 {
						en = "false"
					}
					hst.putConfig(t, float64(vfC09DrawLimit(t))*3_600_000, en, true)
				}
			},
			"legacy_config": func(t *rapid.T) {
				d := rapid.SampledFrom([]uint32{1, 7, 30, 90, 1, 7, 30, 90, 0, 2, 365}).Draw(t, "days")
				hst.legacyConfig(t, d, d == 0 || d == 1 || d == 7 || d == 30 || d == 90)
			},
			"reset": func(t *rapid.T) {
				hst.reset(t)
			},
		})
		hst.account()
	})
}

// TestVFC09Scenarios runs fixed histories through the same oracle (both tiers,
// no rapid): the shapes the property names, as a smoke test of harness and code.
func TestVFC09Scenarios(t *testing.T) {
	vfkit.Begin(t)
	ent := func(r Result, c, d string) (e *Entry) {
		return &Entry{Result: r, Client: c, Domain: d, ProcessingTime: time.Millisecond}
	}
	type step func(h *vfC09Hist)
	upd := func(r Result, n int) step {
		return func(h *vfC09Hist) { h.update(t, ent(r, "192.0.2.1", "a.test"), n) }
	}
	adv := func(k uint32) step { return func(h *vfC09Hist) { h.advance(t, k) } }
	rst := func(k uint32) step { return func(h *vfC09Hist) { h.restart(t, k) } }
	put := func(hours uint32) step {
		return func(h *vfC09Hist) { h.putConfig(t, float64(hours)*3_600_000, "true", true) }
	}
	scenarios := map[string][]step{
		"rollover_restart": {upd(RNotFiltered, 3), adv(1), upd(RFiltered, 2), rst(0), upd(RParental, 1), adv(1), rst(1), upd(RSafeSearch, 1)},
		"window_edge":      {upd(RNotFiltered, 1), adv(22), upd(RFiltered, 1), adv(1), upd(RSafeBrowsing, 1), adv(1), upd(RNotFiltered, 1), adv(1)},
		"gap_then_grow":    {upd(RNotFiltered, 2), adv(1), upd(RFiltered, 2), adv(30), upd(RNotFiltered, 1), put(168), rst(0), put(720), adv(800)},
		"shrink_grow":      {put(720), upd(RNotFiltered, 2), adv(5), upd(RFiltered, 1), put(3), adv(1), put(168), rst(2)},
		"reset_restart":    {upd(RNotFiltered, 2), adv(1), upd(RFiltered, 1), func(h *vfC09Hist) { h.reset(t) }, rst(0), upd(RParental, 1), rst(0)},
		"legacy_disable":   {upd(RNotFiltered, 2), func(h *vfC09Hist) { h.legacyConfig(t, 0, true) }, upd(RNotFiltered, 1), func(h *vfC09Hist) { h.legacyConfig(t, 30, true) }, upd(RFiltered, 1), adv(24)},
	}
	names := make([]string, 0, len(scenarios))
	for k := range scenarios {
		names = append(names, k)
	}
	sort.Strings(names)
	for _, name := range names {
		for _, start := range []uint32{480_000, 480_023} {
			hst := vfC09NewHist(t, start, 24, true)
			hst.read(t)
			for _, st := range scenarios[name] {
				st(hst)
				hst.read(t)
			}
			hst.account()
			hst.x.destroy()
		}
	}
}
