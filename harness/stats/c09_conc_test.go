//go:build verif

package stats

import (
	"encoding/json"
	"fmt"
	"net/http"
	"runtime"
	"runtime/debug"
	"sync"
	"sync/atomic"
	"testing"
	"time"

	"github.com/AdguardTeam/AdGuardHome/internal/vfkit"
	"pgregory.net/rapid"
)

// vfC09ConcRead is one observation of a concurrent reader.
type vfC09ConcRead struct {
	tot [5]uint64
	// sum holds the sums of the series; safe search has no series, its slot
	// repeats the total so that whole vectors can be compared.
	sum  [5]uint64
	mode string
	// nonzero is the number of non-zero entries of dns_queries.
	nonzero int
}

func vfC09ParseConc(body []byte) (o vfC09ConcRead, err error) {
	r := &vfC09Resp{}
	err = json.Unmarshal(body, r)
	if err != nil {
		return o, fmt.Errorf("response is not the documented JSON: %w: %q", err, body)
	}
	if r.NumDNSQueries == nil || r.NumBlockedFiltering == nil || r.NumReplacedSafebrowsing == nil ||
		r.NumReplacedSafesearch == nil || r.NumReplacedParental == nil {
		return o, fmt.Errorf("response lacks a total: %q", body)
	}
	o.tot = [5]uint64{
		*r.NumDNSQueries, *r.NumBlockedFiltering, *r.NumReplacedSafebrowsing, *r.NumReplacedSafesearch,
		*r.NumReplacedParental,
	}
	o.mode = r.TimeUnits
	for c, s := range [5][]uint64{r.DNSQueries, r.BlockedFiltering, r.ReplacedSafebrowsing, nil, r.ReplacedParental} {
		for _, v := range s {
			o.sum[c] += v
			if c == vfC09Tot && v != 0 {
				o.nonzero++
			}
		}
	}

	o.sum[vfC09SS] = o.tot[vfC09SS]

	return o, nil
}

// TestVFC09Concurrent: updaters run concurrently with the hourly flush (single
// worker, stepping clock) and with API readers.  Every read must lie between
// the number of updates completed before it began and the number started before
// it ended, never go backwards, and be internally consistent; at quiescence the
// totals equal the number of updates per category, also after a clean restart.
// The schedule is whatever the Go scheduler produces (sampling, no absence
// claim); the verdict on a correct implementation does not depend on it.
func TestVFC09Concurrent(t *testing.T) {
	vfkit.Begin(t)
	rapid.Check(t, func(t *rapid.T) {
		limitH := rapid.SampledFrom([]uint32{24, 24, 168, 720}).Draw(t, "limit_h")
		start := uint32(480_000 + rapid.IntRange(0, 47).Draw(t, "start_hour_offset"))
		nUpd := rapid.IntRange(1, 4).Draw(t, "updaters")
		perUpd := rapid.IntRange(10, 300).Draw(t, "updates_each")
		nSteps := rapid.IntRange(1, 12).Draw(t, "hour_steps")
		nReaders := rapid.IntRange(1, 2).Draw(t, "readers")
		restart := rapid.Bool().Draw(t, "restart_at_end")
		plans := make([][]int, nUpd)
		var want [vfC09NCat]uint64
		for i := range plans {
			plans[i] = rapid.SliceOfN(rapid.IntRange(0, vfC09NCat-1), perUpd, perUpd).Draw(t, fmt.Sprintf("cats_%d", i))
			for _, c := range plans[i] {
				want[c]++
			}
		}
		total := uint64(nUpd * perUpd)
		results := [vfC09NCat]Result{RNotFiltered, RFiltered, RSafeBrowsing, RSafeSearch, RParental}

		hst := vfC09NewHist(t, start, limitH, true)
		defer hst.x.destroy()
		s := hst.x.s

		var started, completed atomic.Uint64
		var stop atomic.Bool
		errs := make(chan error, 16)
		fail := func(err error) {
			select {
			case errs <- err:
			default:
			}
			stop.Store(true)
		}
		guard := func(what string) {
			if p := recover(); p != nil {
				fail(fmt.Errorf("panic in %s: %v\n%s", what, p, debug.Stack()))
			}
		}

		begin := make(chan struct{})
		// Rendezvous without clocks: an updater that reaches the k-th share of
		// its plan announces it and goes on as soon as the worker has *begun* hour
		// step k, so that updates run while that flush is in progress.
		var reached, stepBegun, updatersDone atomic.Int64
		var updWG, workerWG, readWG sync.WaitGroup
		for i := 0; i < nUpd; i++ {
			updWG.Add(1)
			go func(i int) {
				defer updWG.Done()
				defer updatersDone.Add(1)
				defer guard("Update")
				<-begin
				nextK := 1
				for j, c := range plans[i] {
					for nextK <= nSteps && j >= perUpd*nextK/(nSteps+1) {
						for {
							r := reached.Load()
							if r >= int64(nextK) || reached.CompareAndSwap(r, int64(nextK)) {
								break
							}
						}
						for stepBegun.Load() < int64(nextK) && !stop.Load() {
							runtime.Gosched()
						}
						nextK++
					}
					e := &Entry{
						Result:         results[c],
						Client:         vfC09Clients[(i+j)%len(vfC09Clients)],
						Domain:         vfC09Domains[j%len(vfC09Domains)],
						ProcessingTime: time.Millisecond,
					}
					started.Add(1)
					s.Update(e)
					completed.Add(1)
				}
			}(i)
		}

		// The single hourly worker: steps the clock when an updater has reached
		// the next share of its plan, then runs the flush body.
		workerWG.Add(1)
		go func() {
			defer workerWG.Done()
			defer guard("flush")
			<-begin
			for k := 1; k <= nSteps; k++ {
				for reached.Load() < int64(k) && updatersDone.Load() < int64(nUpd) && !stop.Load() {
					runtime.Gosched()
				}
				hst.x.clock.Add(1)
				stepBegun.Store(int64(k))
				s.flush()
				// the worker also polls within an hour
				s.flush()
			}
		}()

		var readsDone atomic.Uint64
		for i := 0; i < nReaders; i++ {
			readWG.Add(1)
			go func() {
				defer readWG.Done()
				<-begin
				var prev uint64
				for !stop.Load() {
					lo := completed.Load()
					code, out, err := hst.x.do(http.MethodGet, "/control/stats", "")
					hi := started.Load()
					if err != nil {
						fail(err)

						return
					}
					if code != http.StatusOK {
						fail(fmt.Errorf("GET /control/stats during updates: %d %s", code, out))

						return
					}
					o, err := vfC09ParseConc(out)
					if err != nil {
						fail(err)

						return
					}
					n := o.tot[vfC09Tot]
					switch {
					case n < lo:
						err = fmt.Errorf("read reports %d queries although %d updates had completed before it began (lost counts)", n, lo)
					case n > hi:
						err = fmt.Errorf("read reports %d queries although only %d updates had started when it ended (double counts)", n, hi)
					case n < prev:
						err = fmt.Errorf("num_dns_queries went back from %d to %d with all hours inside the window", prev, n)
					case o.mode == "hours" && o.sum != o.tot:
						err = fmt.Errorf("hourly series sum to %v, totals are %v", o.sum, o.tot)
					case o.mode == "days" && (o.sum[vfC09Tot] > o.tot[vfC09Tot] || o.sum[vfC09Flt] > o.tot[vfC09Flt] ||
						o.sum[vfC09SB] > o.tot[vfC09SB] || o.sum[vfC09Par] > o.tot[vfC09Par]):
						err = fmt.Errorf("daily series sum to %v > totals %v", o.sum, o.tot)
					}
					if err != nil {
						fail(err)

						return
					}
					prev = n
					readsDone.Add(1)
					runtime.Gosched()
				}
			}()
		}

		close(begin)
		// The updaters always run to their end (the worker begins every step
		// once one of them asked for it); then the worker ends; the readers end
		// on the flag.
		allDone := make(chan struct{})
		go func() {
			updWG.Wait()
			workerWG.Wait()
			stop.Store(true)
			readWG.Wait()
			close(allDone)
		}()
		// A stall is "no update and no read completed for a minute", not "slow".
		var progress atomic.Int64
		watchStop := make(chan struct{})
		go func() {
			tk := time.NewTicker(100 * time.Millisecond)
			defer tk.Stop()
			for {
				select {
				case <-watchStop:
					return
				case <-tk.C:
					progress.Store(int64(completed.Load() + readsDone.Load()))
				}
			}
		}()
		finished := vfkit.WaitProgress(allDone, &progress, 60*time.Second)
		close(watchStop)
		if !finished {
			// closing a deadlocked module would block for ever: leak it
			hst.x.s = nil
			buf := make([]byte, 1<<20)
			n := runtime.Stack(buf, true)
			t.Fatalf("stall: no statistics update and no read completed for 60 s (deadlock between the updaters, the flush worker and the readers?)\n"+
				"case: limit %dh, %d updaters x %d, %d hour steps\n%s", limitH, nUpd, perUpd, nSteps, buf[:n])
		}

		select {
		case err := <-errs:
			t.Fatalf("%v\ncase: limit %dh, %d updaters x %d, %d hour steps", err, limitH, nUpd, perUpd, nSteps)
		default:
		}

		// Quiescence: conservation per category.
		final := func(when string) (o vfC09ConcRead) {
			code, out, err := hst.x.do(http.MethodGet, "/control/stats", "")
			if err != nil || code != http.StatusOK {
				t.Fatalf("GET /control/stats %s: %d %s %v", when, code, out, err)
			}
			o, err = vfC09ParseConc(out)
			if err != nil {
				t.Fatalf("%s: %v", when, err)
			}
			wantTot := [5]uint64{total, want[vfC09Filtered], want[vfC09SafeBrowsing], want[vfC09SafeSearch], want[vfC09Parental]}
			if o.tot != wantTot {
				t.Fatalf("%s: totals (all, filtered, safebrowsing, safesearch, parental) = %v, want %v: "+
					"%d updaters x %d updates, %d hour steps, limit %dh", when, o.tot, wantTot, nUpd, perUpd, nSteps, limitH)
			}
			if o.mode == "hours" && o.sum != wantTot {
				t.Fatalf("%s: hourly series sum to %v, totals are %v", when, o.sum, o.tot)
			}

			return o
		}
		o := final("at quiescence")
		if restart {
			err := s.Close()
			if err != nil {
				t.Fatalf("clean shutdown failed: %v", err)
			}
			hst.x.s = nil
			err = hst.x.open(hst.m.limit, true)
			if err != nil {
				t.Fatalf("restart failed: %v", err)
			}
			final("after restart")
		}

		vfC09.Eval()
		vfC09.Class("conc:case")
		vfC09.ClassN("conc:reads_during_updates", int(readsDone.Load()))
		if o.mode == "hours" && o.nonzero >= 2 {
			// updates really landed in different hours: the unit swap happened
			// between updates
			vfC09.Class("conc:updates_spread_over_hours")
			vfC09.Nontrivial(fmt.Sprintf("conc|%d|%d|%d|%d|%d|%v|%v", limitH, start, nUpd, perUpd, nSteps, restart, plans))
		}
		if restart {
			vfC09.Class("conc:restart_at_end")
		}
		if o.mode == "hours" && o.nonzero == nSteps+1 {
			vfC09.Class("conc:every_hour_has_counts")
		}
		if vfC09.WantSample("concurrent") {
			vfC09.Sample("concurrent", map[string]any{
				"limit_h": limitH, "updaters": nUpd, "updates_each": perUpd, "hour_steps": nSteps, "readers": nReaders,
				"restart_at_end": restart, "reads_during_updates": readsDone.Load(), "hours_with_counts": o.nonzero,
				"total": total,
			})
		}
	})
}

// TestVFC09ResetVsFlush: a statistics reset through the API while the hourly
// worker is flushing.  Everything counted before the reset began must be gone
// afterwards, whatever the worker was doing: the totals then equal what was
// counted after the reset returned.
func TestVFC09ResetVsFlush(t *testing.T) {
	vfkit.Begin(t)
	rapid.Check(t, func(t *rapid.T) {
		start := uint32(480_000 + rapid.IntRange(0, 47).Draw(t, "start_hour_offset"))
		before := rapid.IntRange(1, 40).Draw(t, "updates_before")
		after := rapid.IntRange(0, 20).Draw(t, "updates_after")
		steps := rapid.IntRange(1, 6).Draw(t, "hour_steps_during_reset")
		delay := rapid.IntRange(0, 200).Draw(t, "yields_before_reset")
		restart := rapid.Bool().Draw(t, "restart_at_end")

		hst := vfC09NewHist(t, start, 24, true)
		defer hst.x.destroy()
		s := hst.x.s
		upd := func(n int, dom string) {
			for i := 0; i < n; i++ {
				s.Update(&Entry{Result: RNotFiltered, Client: vfC09Clients[i%len(vfC09Clients)], Domain: dom, ProcessingTime: time.Millisecond})
			}
		}
		upd(before, "before.reset.test")

		var wg sync.WaitGroup
		begin := make(chan struct{})
		var resetCode atomic.Int64
		wg.Add(2)
		var resetDone atomic.Bool
		go func() {
			defer wg.Done()
			<-begin
			// the worker polls; while the database is away (a reset in
			// progress) it polls without sleeping, as periodicFlush does
			for k := 0; k < steps; k++ {
				hst.x.clock.Add(1)
				for i := 0; i < 3 || (!resetDone.Load() && i < 200000); i++ {
					if _, sleepFor := s.flush(); sleepFor > 0 && resetDone.Load() {
						break
					}
				}
			}
		}()
		go func() {
			defer wg.Done()
			<-begin
			for i := 0; i < delay; i++ {
				runtime.Gosched()
			}
			code, _, _ := hst.x.do(http.MethodPost, "/control/stats_reset", "")
			resetCode.Store(int64(code))
			resetDone.Store(true)
		}()
		close(begin)
		done := make(chan struct{})
		go func() { wg.Wait(); close(done) }()
		select {
		case <-done:
		case <-time.After(90 * time.Second):
			hst.x.s = nil
			t.Fatalf("stall: a reset and %d hour steps of the flush worker did not finish in 90 s", steps)
		}
		if resetCode.Load() != http.StatusOK {
			t.Fatalf("POST /control/stats_reset: status %d", resetCode.Load())
		}
		// the worker's remaining polls of that hour
		s.flush()
		upd(after, "after.reset.test")

		check := func(when string) {
			code, out, err := hst.x.do(http.MethodGet, "/control/stats", "")
			if err != nil || code != http.StatusOK {
				t.Fatalf("GET /control/stats %s: %d %s %v", when, code, out, err)
			}
			o, perr := vfC09ParseConc(out)
			if perr != nil {
				t.Fatalf("%s: %v", when, perr)
			}
			if o.tot[vfC09Tot] != uint64(after) {
				t.Fatalf("%s: num_dns_queries = %d; %d queries were counted before POST /control/stats_reset (which returned 200 while the "+
					"flush worker was stepping %d hours) and %d after it: want %d", when, o.tot[vfC09Tot], before, steps, after, after)
			}
		}
		check("after the reset")
		if restart {
			if err := s.Close(); err != nil {
				t.Fatalf("clean shutdown failed: %v", err)
			}
			hst.x.s = nil
			if err := hst.x.open(hst.m.limit, true); err != nil {
				t.Fatalf("restart failed: %v", err)
			}
			check("after the reset and a restart")
		}

		vfC09.Eval()
		vfC09.Class("conc:reset_during_flush")
		vfC09.Nontrivial(fmt.Sprintf("reset_vs_flush|%d|%d|%d|%d", before, after, steps, delay))
		if vfC09.WantSample("reset_vs_flush") {
			vfC09.Sample("reset_vs_flush", map[string]any{"counted_before": before, "counted_after": after, "hour_steps_during_reset": steps})
		}
	})
}

// TestVFC09ResetAcrossHourStep: the flush worker has read the hour and is about
// to take its locks when the hour ends and the statistics are reset; queries
// counted after the reset must be there whatever the worker does next.  The
// harness holds the worker inside the clock function the module is configured
// with, so the schedule is fixed, not timed.
func TestVFC09ResetAcrossHourStep(t *testing.T) {
	vfkit.Begin(t)
	rapid.Check(t, func(t *rapid.T) {
		start := uint32(480_000 + rapid.IntRange(0, 47).Draw(t, "start_hour_offset"))
		before := rapid.IntRange(1, 40).Draw(t, "updates_before")
		during := rapid.IntRange(0, 6).Draw(t, "updates_between_reset_and_worker")
		after := rapid.IntRange(0, 20).Draw(t, "updates_after")
		hourEnds := rapid.IntRange(0, 3).Draw(t, "hour_ends_before_reset") > 0
		laterPolls := rapid.IntRange(0, 3).Draw(t, "later_polls")
		nextHour := rapid.Bool().Draw(t, "one_more_hour")
		restart := rapid.Bool().Draw(t, "restart_at_end")

		hst := vfC09NewHist(t, start, 24, true)
		defer hst.x.destroy()
		s := hst.x.s
		upd := func(n int, dom string) {
			for i := 0; i < n; i++ {
				s.Update(&Entry{Result: RNotFiltered, Client: vfC09Clients[i%len(vfC09Clients)], Domain: dom, ProcessingTime: time.Millisecond})
			}
		}
		upd(before, "before.reset.test")

		held, release, workerDone := make(chan struct{}), make(chan struct{}), make(chan struct{})
		hold := func() { close(held); <-release }
		hst.x.afterClockRead.Store(&hold)
		go func() {
			defer close(workerDone)
			s.flush()
		}()
		select {
		case <-held:
		case <-time.After(30 * time.Second):
			t.Fatalf("VERIF-INCONCLUSIVE the flush worker did not read the clock")
		}
		if hourEnds {
			hst.x.clock.Add(1)
		}
		// the reset and the queries after it are other goroutines' business:
		// the worker goes on when they are through or have visibly come to
		// wait (for the worker, which is a legitimate way to order them)
		var resetCode atomic.Int64
		othersDone := make(chan struct{})
		go func() {
			defer close(othersDone)
			code, _, _ := hst.x.do(http.MethodPost, "/control/stats_reset", "")
			resetCode.Store(int64(code))
			upd(during, "between.test")
		}()
		select {
		case <-othersDone:
			vfC09.Class("conc:reset_ran_while_worker_was_held")
		case <-time.After(300 * time.Millisecond):
			vfC09.Class("conc:reset_waited_for_worker")
		}
		close(release)
		for _, ch := range []chan struct{}{workerDone, othersDone} {
			select {
			case <-ch:
			case <-time.After(60 * time.Second):
				hst.x.s = nil
				t.Fatalf("stall: the flush poll, the reset and %d queries have not all finished 60 s after the worker was let go", during)
			}
		}
		if resetCode.Load() != http.StatusOK {
			t.Fatalf("POST /control/stats_reset: status %d", resetCode.Load())
		}
		for i := 0; i < laterPolls; i++ {
			s.flush()
		}
		upd(after, "after.reset.test")
		if nextHour {
			hst.x.clock.Add(1)
			s.flush()
			s.flush()
		}

		want := uint64(during + after)
		check := func(when string) {
			code, out, err := hst.x.do(http.MethodGet, "/control/stats", "")
			if err != nil || code != http.StatusOK {
				t.Fatalf("GET /control/stats %s: %d %s %v", when, code, out, err)
			}
			o, perr := vfC09ParseConc(out)
			if perr != nil {
				t.Fatalf("%s: %v", when, perr)
			}
			if o.tot[vfC09Tot] != want {
				t.Fatalf("%s: num_dns_queries = %d; %d queries were counted before POST /control/stats_reset, %d between its return and the "+
					"end of the flush poll that had read the hour before it (hour ended meanwhile: %t), %d afterwards: want %d",
					when, o.tot[vfC09Tot], before, during, hourEnds, after, want)
			}
		}
		check("after the reset")
		if restart {
			if err := s.Close(); err != nil {
				t.Fatalf("clean shutdown failed: %v", err)
			}
			hst.x.s = nil
			if err := hst.x.open(hst.m.limit, true); err != nil {
				t.Fatalf("restart failed: %v", err)
			}
			check("after the reset and a restart")
		}

		vfC09.Eval()
		vfC09.Class(fmt.Sprintf("conc:reset_after_worker_read_the_hour:hour_ended=%t", hourEnds))
		vfC09.Nontrivial(fmt.Sprintf("reset_across_hour|%d|%d|%d|%t|%d|%t", before, during, after, hourEnds, laterPolls, nextHour))
	})
}

// TestVFC09CloseVsFlush: a clean shutdown at the moment the hourly worker
// polls.  Whichever of the two gets to the database first, both must finish,
// and the queries of the hour that has just ended must be there after the
// restart.  Real goroutines, many rounds per case; a round in which neither the
// shutdown nor the poll makes progress for a minute is a deadlock.
func TestVFC09CloseVsFlush(t *testing.T) {
	vfkit.Begin(t)
	rapid.Check(t, func(t *rapid.T) {
		start := uint32(480_000 + rapid.IntRange(0, 47).Draw(t, "start_hour_offset"))
		counted := rapid.IntRange(1, 12).Draw(t, "updates_per_round")
		rounds := rapid.IntRange(20, 60).Draw(t, "rounds")
		spin := rapid.IntRange(0, 40).Draw(t, "yields_before_close")

		hst := vfC09NewHist(t, start, 24, true)
		defer hst.x.destroy()
		var progress atomic.Int64
		for r := 0; r < rounds; r++ {
			s := hst.x.s
			for i := 0; i < counted; i++ {
				s.Update(&Entry{Result: RNotFiltered, Client: vfC09Clients[i%len(vfC09Clients)], Domain: "round.test", ProcessingTime: time.Millisecond})
			}
			hst.x.clock.Add(1)

			begin, done := make(chan struct{}), make(chan struct{})
			var wg sync.WaitGroup
			var closeErr error
			wg.Add(2)
			go func() {
				defer wg.Done()
				<-begin
				s.flush()
				progress.Add(1)
			}()
			go func() {
				defer wg.Done()
				<-begin
				for i := 0; i < (spin+r)%41; i++ {
					runtime.Gosched()
				}
				closeErr = s.Close()
				progress.Add(1)
			}()
			close(begin)
			go func() { wg.Wait(); close(done) }()
			if !vfkit.WaitProgress(done, &progress, 60*time.Second) {
				hst.x.s = nil
				t.Fatalf("deadlock: in round %d neither the clean shutdown nor the poll of the flush worker at the hour step finished (no progress for 60 s); "+
					"%d queries of the hour that had just ended are not in the database", r, counted)
			}
			if closeErr != nil {
				t.Fatalf("round %d: clean shutdown failed: %v", r, closeErr)
			}
			hst.x.s = nil
			if err := hst.x.open(hst.m.limit, true); err != nil {
				t.Fatalf("round %d: restart failed: %v", r, err)
			}
			code, out, err := hst.x.do(http.MethodGet, "/control/stats", "")
			if err != nil || code != http.StatusOK {
				t.Fatalf("round %d: GET /control/stats: %d %s %v", r, code, out, err)
			}
			o, perr := vfC09ParseConc(out)
			if perr != nil {
				t.Fatalf("round %d: %v", r, perr)
			}
			// every round is one hour and the window is 24 hours, the current
			// (empty) one included or not, depending on who rolled the hour
			lo, hi := uint64(counted)*uint64(min(r+1, 23)), uint64(counted)*uint64(min(r+1, 24))
			if got := o.tot[vfC09Tot]; got != lo && got != hi {
				t.Fatalf("round %d: after a clean shutdown at the hour step and a restart num_dns_queries = %d, want %d or %d (%d per hour, 24 hour window)",
					r, got, lo, hi, counted)
			}
		}
		vfC09.Eval()
		vfC09.ClassN("conc:close_vs_flush_rounds", rounds)
		vfC09.Nontrivial(fmt.Sprintf("close_vs_flush|%d|%d|%d", counted, rounds, spin))
	})
}
