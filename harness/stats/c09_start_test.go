//go:build verif

package stats

import (
	"fmt"
	"testing"

	"github.com/AdguardTeam/AdGuardHome/internal/vfkit"
	"pgregory.net/rapid"
)

// TestVFC09StartOrder: the application creates the module (New), starts the DNS
// server, whose requests are counted at once, and only then calls Start
// (home.startDNSServer).  What is counted between New and Start is counted like
// anything else: it is added to what the database holds for the running hour,
// reported at once and kept across the next clean restart.
//
// The real Start is used here, so the hourly worker of every instance runs; the
// clock of a case never moves (restarts within the hour are the ones where the
// stored bucket of the running hour and the new counts meet), so the workers
// only look and sleep.
func TestVFC09StartOrder(t *testing.T) {
	vfkit.Begin(t)
	rapid.Check(t, func(t *rapid.T) {
		start := uint32(480_000 + rapid.IntRange(0, 47).Draw(t, "start_hour_offset"))
		hst := vfC09NewHist(t, start, vfC09DrawLimit(t), true)
		defer hst.x.destroy()
		hst.x.s.Start()

		rounds := rapid.IntRange(1, 3).Draw(t, "rounds")
		between := 0
		for r := 0; r < rounds; r++ {
			for i, n := 0, rapid.IntRange(0, 3).Draw(t, fmt.Sprintf("r%d_before", r)); i < n; i++ {
				hst.update(t, vfC09DrawEntry(t), rapid.IntRange(1, 3).Draw(t, "times"))
			}
			hst.read(t)

			// New + handlers, as home.initDNS does ...
			hst.restartLate(t, 0, 0)
			// ... the DNS server is up and counts ...
			nb := rapid.IntRange(0, 3).Draw(t, fmt.Sprintf("r%d_between", r))
			for i := 0; i < nb; i++ {
				hst.update(t, vfC09DrawEntry(t), rapid.IntRange(1, 3).Draw(t, "times"))
			}
			between += nb
			// ... and then the module is started
			hst.logf("Start()")
			hst.x.s.Start()
			hst.read(t)

			for i, n := 0, rapid.IntRange(0, 2).Draw(t, fmt.Sprintf("r%d_after", r)); i < n; i++ {
				hst.update(t, vfC09DrawEntry(t), rapid.IntRange(1, 3).Draw(t, "times"))
			}
			hst.read(t)
		}
		if between > 0 && hst.flags["counted_update"] {
			hst.flags["counted_between_new_and_start"] = true
		}
		hst.account()
	})
}
