//go:build verif

package schedule

import (
	"archive/zip"
	"encoding/json"
	"fmt"
	"os"
	"sort"
	"strings"
	"sync"
	"testing"
	"time"
	_ "time/tzdata"

	"github.com/AdguardTeam/AdGuardHome/internal/vfkit"
	"gopkg.in/yaml.v3"
	"pgregory.net/rapid"
)

var vfC18 = vfkit.For("C18")

// vfZones returns the IANA zone names to draw from: every entry of the Go
// distribution's zoneinfo.zip when the driver names it, else a fixed list that
// covers DST in both hemispheres, 30/45-minute offsets and midnight transitions.
var vfZones = sync.OnceValue(func() (zones []string) {
	if p := os.Getenv("VERIF_ZONEINFO_ZIP"); p != "" {
		if zr, err := zip.OpenReader(p); err == nil {
			defer zr.Close()
			for _, f := range zr.File {
				if strings.HasSuffix(f.Name, "/") {
					continue
				}
				if _, lerr := time.LoadLocation(f.Name); lerr == nil {
					zones = append(zones, f.Name)
				}
			}
		}
	}
	if len(zones) < 50 {
		zones = []string{
			"UTC", "Europe/Berlin", "Europe/London", "Europe/Lisbon", "Europe/Moscow", "Europe/Dublin",
			"America/New_York", "America/Los_Angeles", "America/St_Johns", "America/Havana", "America/Sao_Paulo",
			"America/Santiago", "America/Asuncion", "America/Caracas", "America/Godthab", "America/Scoresbysund",
			"Asia/Kolkata", "Asia/Kathmandu", "Asia/Tehran", "Asia/Beirut", "Asia/Amman", "Asia/Gaza", "Asia/Tokyo",
			"Asia/Pyongyang", "Asia/Yangon", "Australia/Lord_Howe", "Australia/Adelaide", "Australia/Sydney",
			"Australia/Eucla", "Pacific/Chatham", "Pacific/Apia", "Pacific/Kiritimati", "Pacific/Auckland",
			"Pacific/Norfolk", "Africa/Cairo", "Africa/Casablanca", "Africa/Juba", "Antarctica/Troll",
			"Atlantic/Azores", "Etc/GMT-14", "Etc/GMT+12",
		}
	}
	sort.Strings(zones)

	return zones
})

// vfHotZones are drawn with extra weight: they have the transition shapes that
// matter (midnight transitions, 30-minute DST, double DST, date-line jump).
var vfHotZones = []string{
	"Europe/Berlin", "America/New_York", "America/Havana", "Asia/Beirut", "America/Sao_Paulo",
	"Australia/Lord_Howe", "Pacific/Apia", "America/St_Johns", "Asia/Tehran", "Africa/Cairo",
	"America/Santiago", "Asia/Amman", "Antarctica/Troll", "Pacific/Chatham", "America/Asuncion",
}

var (
	vfTransMu    sync.Mutex
	vfTransCache = map[string][]int64{}
)

// vfTransitions returns the Unix seconds of the first instant after each UTC
// offset change of the zone between 1970 and 2040, found by daily sampling and
// bisection.  It uses only time.Time.Zone of the standard library.
func vfTransitions(name string, loc *time.Location) (tr []int64) {
	vfTransMu.Lock()
	defer vfTransMu.Unlock()

	if tr, ok := vfTransCache[name]; ok {
		return tr
	}

	off := func(u int64) int {
		_, o := time.Unix(u, 0).In(loc).Zone()

		return o
	}

	const day = 86400
	start := time.Date(1970, 1, 2, 0, 0, 0, 0, time.UTC).Unix()
	end := time.Date(2040, 1, 1, 0, 0, 0, 0, time.UTC).Unix()
	prev := off(start)
	for u := start + day; u < end; u += day {
		cur := off(u)
		if cur == prev {
			continue
		}
		lo, hi := u-day, u
		for hi-lo > 1 {
			mid := lo + (hi-lo)/2
			if off(mid) == prev {
				lo = mid
			} else {
				hi = mid
			}
		}
		tr = append(tr, hi)
		prev = cur
	}
	vfTransCache[name] = tr

	return tr
}

// vfRange is a model day range in minutes; start==end==0 is the empty range.
type vfRange struct {
	Start int `json:"start_min"`
	End   int `json:"end_min"`
}

func vfDrawRange(t *rapid.T, label string) (r vfRange) {
	switch rapid.IntRange(0, 5).Draw(t, label+"_kind") {
	case 0:
		return vfRange{}
	case 1:
		return vfRange{0, 1440}
	case 2:
		// edge touching: starts at midnight or ends at 24h
		if rapid.Bool().Draw(t, label+"_atstart") {
			return vfRange{0, rapid.IntRange(1, 1440).Draw(t, label+"_end")}
		}

		return vfRange{rapid.IntRange(0, 1439).Draw(t, label+"_start"), 1440}
	default:
		s := rapid.IntRange(0, 1439).Draw(t, label+"_start")
		e := rapid.IntRange(s+1, 1440).Draw(t, label+"_end")

		return vfRange{s, e}
	}
}

var vfDayKeys = [7]string{"sun", "mon", "tue", "wed", "thu", "fri", "sat"}

// vfScheduleJSON renders the API form of a schedule.
func vfScheduleJSON(zone string, days [7]vfRange) (b []byte) {
	m := map[string]any{"time_zone": zone}
	for i, r := range days {
		if r == (vfRange{}) {
			continue
		}
		m[vfDayKeys[i]] = map[string]any{"start": int64(r.Start) * 60000, "end": int64(r.End) * 60000}
	}
	b, err := json.Marshal(m)
	if err != nil {
		panic(err)
	}

	return b
}

// vfScheduleYAML renders the configuration-file form of a schedule.
func vfScheduleYAML(zone string, days [7]vfRange) (b []byte) {
	sb := &strings.Builder{}
	fmt.Fprintf(sb, "time_zone: %s\n", zone)
	for i, r := range days {
		if r == (vfRange{}) {
			continue
		}
		fmt.Fprintf(sb, "%s:\n  start: %dm\n  end: %dm\n", vfDayKeys[i], r.Start, r.End)
	}

	return []byte(sb.String())
}

func vfDrawZone(t *rapid.T) (name string) {
	if rapid.IntRange(0, 2).Draw(t, "zone_hot") == 0 {
		return rapid.SampledFrom(vfHotZones).Draw(t, "zone")
	}

	return rapid.SampledFrom(vfZones()).Draw(t, "zone")
}

// vfWallOffset is the reference: wall-clock time of day of the instant in loc,
// and its weekday there.
func vfWallOffset(ts time.Time, loc *time.Location) (wd time.Weekday, off time.Duration) {
	lt := ts.In(loc)
	h, m, s := lt.Clock()

	return lt.Weekday(), time.Duration(h)*time.Hour + time.Duration(m)*time.Minute +
		time.Duration(s)*time.Second + time.Duration(lt.Nanosecond())
}

var vfDeltas = []time.Duration{
	0, 1, -1, time.Second, -time.Second, time.Minute, -time.Minute, 30 * time.Minute, -30 * time.Minute,
	time.Hour, -time.Hour, 90 * time.Minute, -90 * time.Minute, 3 * time.Hour, -3 * time.Hour,
	12 * time.Hour, -12 * time.Hour, 23 * time.Hour, -23 * time.Hour,
}

// vfDrawInstant draws an instant of one of the classes named in the design.
func vfDrawInstant(t *rapid.T, zone string, loc *time.Location, days [7]vfRange) (ts time.Time, class string) {
	lo := time.Date(1970, 1, 2, 0, 0, 0, 0, time.UTC).Unix()
	hi := time.Date(2040, 1, 1, 0, 0, 0, 0, time.UTC).Unix()
	tr := vfTransitions(zone, loc)

	kind := rapid.IntRange(0, 3).Draw(t, "instant_kind")
	if kind == 3 && len(tr) == 0 {
		kind = 1
	}
	switch kind {
	case 0:
		sec := rapid.Int64Range(lo, hi).Draw(t, "unix")
		ns := rapid.Int64Range(0, 999999999).Draw(t, "nsec")

		return time.Unix(sec, ns), "uniform"
	case 1, 2:
		// near a range edge or midnight of a day, optionally a transition day
		var base time.Time
		if len(tr) > 0 && rapid.Bool().Draw(t, "on_transition_day") {
			u := rapid.SampledFrom(tr).Draw(t, "transition")
			base = time.Unix(u, 0).In(loc)
			class = "edge_on_transition_day"
		} else {
			base = time.Unix(rapid.Int64Range(lo, hi).Draw(t, "unix"), 0).In(loc)
			class = "edge"
		}
		y, m, d := base.Date()
		r := days[base.Weekday()]
		var mins int
		if kind == 1 {
			mins = rapid.SampledFrom([]int{r.Start, r.End, 0, 1440}).Draw(t, "edge_min")
		} else {
			mins = rapid.IntRange(0, 1440).Draw(t, "wall_min")
			class = strings.Replace(class, "edge", "wallminute", 1)
		}
		ts = time.Date(y, m, d, mins/60, mins%60, 0, 0, loc)
		ts = ts.Add(rapid.SampledFrom(vfDeltas[:7]).Draw(t, "delta"))

		return ts, class
	default:
		u := rapid.SampledFrom(tr).Draw(t, "transition")
		ts = time.Unix(u, 0).Add(rapid.SampledFrom(vfDeltas).Draw(t, "delta"))
		if rapid.Bool().Draw(t, "jitter") {
			ts = ts.Add(time.Duration(rapid.Int64Range(-int64(25*time.Hour), int64(25*time.Hour)).Draw(t, "jit")))
		}

		return ts, "near_transition"
	}
}

// vfNearTransition reports whether ts is within 25h of an offset transition.
func vfNearTransition(zone string, loc *time.Location, ts time.Time) (ok bool) {
	tr := vfTransitions(zone, loc)
	u := ts.Unix()
	i := sort.Search(len(tr), func(i int) bool { return tr[i] >= u-25*3600 })

	return i < len(tr) && tr[i] <= u+25*3600
}

func vfCheckContains(t interface {
	Fatalf(string, ...any)
}, w *Weekly, zone string, loc *time.Location, days [7]vfRange, ts time.Time, class string) {
	wd, off := vfWallOffset(ts, loc)
	r := days[wd]
	want := time.Duration(r.Start)*time.Minute <= off && off < time.Duration(r.End)*time.Minute
	got := w.Contains(ts)

	vfC18.Eval()
	vfC18.Class("instant:" + class)
	near := vfNearTransition(zone, loc, ts)
	edge := false
	for _, e := range []int{r.Start, r.End, 0, 1440} {
		d := off - time.Duration(e)*time.Minute
		if d <= time.Minute && d >= -time.Minute {
			edge = true
		}
	}
	if near || edge {
		key := fmt.Sprintf("%s|%d|%d-%d|%d|near=%t", zone, wd, r.Start, r.End, ts.UnixNano(), near)
		vfC18.Nontrivial(key)
		if near {
			vfC18.Class("nontrivial:near_transition")
		}
		if edge {
			vfC18.Class("nontrivial:edge")
		}
		cls := "contains"
		if near {
			cls = "contains_near_transition"
		}
		if vfC18.WantSample(cls) {
			vfC18.Sample(cls, map[string]any{
				"zone": zone, "instant": ts.In(loc).Format(time.RFC3339Nano), "weekday": wd.String(),
				"range_min": r, "wall_offset": off.String(), "contains": got,
			})
		}
	}
	if want {
		vfC18.Class("expect:in")
	} else {
		vfC18.Class("expect:out")
	}

	if got != want {
		t.Fatalf("Contains(%s) in %s = %t, want %t: weekday %s wall-clock offset %s, range [%dm, %dm)",
			ts.In(loc).Format(time.RFC3339Nano), zone, got, want, wd, off, r.Start, r.End)
	}
}

// TestVFC18Contains: in effect <=> wall-clock time of day on the local weekday
// lies in [start, end).
func TestVFC18Contains(t *testing.T) {
	vfkit.Begin(t)
	rapid.Check(t, func(t *rapid.T) {
		zone := vfDrawZone(t)
		loc, err := time.LoadLocation(zone)
		if err != nil {
			t.Fatalf("VERIF-INCONCLUSIVE zone %q: %v", zone, err)
		}

		var days [7]vfRange
		for i := range days {
			days[i] = vfDrawRange(t, vfDayKeys[i])
		}

		w := &Weekly{}
		if rapid.Bool().Draw(t, "via_yaml") {
			err = yaml.Unmarshal(vfScheduleYAML(zone, days), w)
		} else {
			err = json.Unmarshal(vfScheduleJSON(zone, days), w)
		}
		if err != nil {
			t.Fatalf("valid schedule rejected: zone %s days %v: %v", zone, days, err)
		}

		n := rapid.IntRange(1, 12).Draw(t, "n_instants")
		for i := 0; i < n; i++ {
			ts, class := vfDrawInstant(t, zone, loc, days)
			vfCheckContains(t, w, zone, loc, days, ts, class)
		}

		// Clone must behave identically.
		c := w.Clone()
		ts, class := vfDrawInstant(t, zone, loc, days)
		vfCheckContains(t, c, zone, loc, days, ts, class+"_clone")
	})
}

// TestVFC18FullAndEmptyDay: a full-day range covers every instant of that
// local day, an empty one none; checked by walking whole local days that hold a
// transition in steps drawn from the seed.
func TestVFC18FullAndEmptyDay(t *testing.T) {
	vfkit.Begin(t)
	rapid.Check(t, func(t *rapid.T) {
		zone := vfDrawZone(t)
		loc, err := time.LoadLocation(zone)
		if err != nil {
			t.Fatalf("VERIF-INCONCLUSIVE zone %q: %v", zone, err)
		}
		tr := vfTransitions(zone, loc)
		var anchor time.Time
		if len(tr) > 0 && rapid.IntRange(0, 3).Draw(t, "plain_day") != 0 {
			anchor = time.Unix(rapid.SampledFrom(tr).Draw(t, "transition"), 0).In(loc)
		} else {
			anchor = time.Unix(rapid.Int64Range(86400, 2208988800).Draw(t, "unix"), 0).In(loc)
		}
		// the local day of anchor, plus the day before and after
		fullDay := anchor.Weekday()
		var days [7]vfRange
		days[fullDay] = vfRange{0, 1440}

		w := &Weekly{}
		err = json.Unmarshal(vfScheduleJSON(zone, days), w)
		if err != nil {
			t.Fatalf("valid schedule rejected: %v", err)
		}

		step := time.Duration(rapid.IntRange(1, 3600).Draw(t, "step_s"))*time.Second +
			time.Duration(rapid.IntRange(0, 999).Draw(t, "step_ms"))*time.Millisecond
		from := anchor.Add(-26 * time.Hour)
		to := anchor.Add(26 * time.Hour)
		n := 0
		for ts := from; ts.Before(to); ts = ts.Add(step) {
			lt := ts.In(loc)
			want := lt.Weekday() == fullDay
			if got := w.Contains(ts); got != want {
				t.Fatalf("full-day %s schedule in %s: Contains(%s) = %t, want %t",
					fullDay, zone, lt.Format(time.RFC3339Nano), got, want)
			}
			n++
		}
		vfC18.EvalN(n)
		vfC18.Class("fullday_walk")
		if len(tr) > 0 {
			vfC18.Nontrivial(fmt.Sprintf("walk|%s|%d|%s", zone, anchor.Unix(), step))
		}
		if vfC18.WantSample("fullday_walk") {
			vfC18.Sample("fullday_walk", map[string]any{
				"zone": zone, "anchor": anchor.Format(time.RFC3339), "full_day": fullDay.String(),
				"step": step.String(), "instants": n,
			})
		}
	})
}

// vfDecodeJSON reads a marshalled schedule back with an independent decoder.
func vfDecodeJSON(b []byte) (zone string, days [7]vfRange, err error) {
	var m map[string]json.RawMessage
	err = json.Unmarshal(b, &m)
	if err != nil {
		return "", days, err
	}
	err = json.Unmarshal(m["time_zone"], &zone)
	if err != nil {
		return "", days, fmt.Errorf("time_zone: %w", err)
	}
	for i, k := range vfDayKeys {
		raw, ok := m[k]
		if !ok || string(raw) == "null" {
			continue
		}
		var d struct {
			Start *float64 `json:"start"`
			End   *float64 `json:"end"`
		}
		err = json.Unmarshal(raw, &d)
		if err != nil || d.Start == nil || d.End == nil {
			return "", days, fmt.Errorf("day %s: %q: %v", k, raw, err)
		}
		days[i] = vfRange{int(*d.Start / 60000), int(*d.End / 60000)}
		if float64(days[i].Start)*60000 != *d.Start || float64(days[i].End)*60000 != *d.End {
			return "", days, fmt.Errorf("day %s: not whole minutes: %q", k, raw)
		}
	}

	return zone, days, nil
}

// vfDecodeYAML reads a marshalled schedule back with an independent decoder.
func vfDecodeYAML(b []byte) (zone string, days [7]vfRange, err error) {
	var m map[string]any
	err = yaml.Unmarshal(b, &m)
	if err != nil {
		return "", days, err
	}
	zone, _ = m["time_zone"].(string)
	for i, k := range vfDayKeys {
		dm, ok := m[k].(map[string]any)
		if !ok {
			continue
		}
		var se [2]time.Duration
		for j, f := range []string{"start", "end"} {
			s, _ := dm[f].(string)
			se[j], err = time.ParseDuration(s)
			if err != nil {
				return "", days, fmt.Errorf("day %s %s: %w", k, f, err)
			}
		}
		days[i] = vfRange{int(se[0] / time.Minute), int(se[1] / time.Minute)}
		if time.Duration(days[i].Start)*time.Minute != se[0] || time.Duration(days[i].End)*time.Minute != se[1] {
			return "", days, fmt.Errorf("day %s: not whole minutes", k)
		}
	}

	return zone, days, nil
}

// TestVFC18RoundTrip: schedules survive JSON and YAML round trips unchanged.
func TestVFC18RoundTrip(t *testing.T) {
	vfkit.Begin(t)
	rapid.Check(t, func(t *rapid.T) {
		zone := vfDrawZone(t)
		var days [7]vfRange
		nonEmpty := 0
		for i := range days {
			days[i] = vfDrawRange(t, vfDayKeys[i])
			if days[i] != (vfRange{}) {
				nonEmpty++
			}
		}

		// chain of encodings: each hop decodes with the code under test and
		// re-encodes in the drawn format; after every hop an independent decoder
		// must read back the original schedule.
		hops := rapid.SliceOfN(rapid.SampledFrom([]string{"json", "yaml"}), 1, 4).Draw(t, "hops")
		cur := vfScheduleJSON(zone, days)
		curFmt := "json"
		for _, h := range hops {
			w := &Weekly{}
			var err error
			if curFmt == "json" {
				err = json.Unmarshal(cur, w)
			} else {
				err = yaml.Unmarshal(cur, w)
			}
			if err != nil {
				t.Fatalf("decode %s %q: %v", curFmt, cur, err)
			}
			var gz string
			var gd [7]vfRange
			if h == "json" {
				cur, err = json.Marshal(w)
				if err == nil {
					gz, gd, err = vfDecodeJSON(cur)
				}
			} else {
				cur, err = yaml.Marshal(w)
				if err == nil {
					gz, gd, err = vfDecodeYAML(cur)
				}
			}
			if err != nil {
				t.Fatalf("encode %s: %v (%q)", h, err, cur)
			}
			if gz != zone || gd != days {
				t.Fatalf("round trip via %s changed the schedule: zone %q days %v -> zone %q days %v (%q)",
					h, zone, days, gz, gd, cur)
			}
			curFmt = h
		}
		vfC18.Eval()
		vfC18.Class("roundtrip")
		if nonEmpty > 0 {
			vfC18.Nontrivial(fmt.Sprintf("rt|%s|%v|%v", zone, days, hops))
		}
		if vfC18.WantSample("roundtrip") {
			vfC18.Sample("roundtrip", map[string]any{"zone": zone, "days_min": days, "hops": hops, "final": string(cur)})
		}
	})
}

// TestVFC18Validation: ranges that are negative, inverted, longer than 24h or
// not whole minutes are rejected; all others are accepted.
func TestVFC18Validation(t *testing.T) {
	vfkit.Begin(t)
	rapid.Check(t, func(t *rapid.T) {
		zone := vfDrawZone(t)
		badZone := rapid.IntRange(0, 9).Draw(t, "bad_zone") == 0
		if badZone {
			zone = rapid.SampledFrom([]string{"Mars/Olympus", "Europe/Nowhere", "../etc/passwd", "UTC+25"}).Draw(t, "bad_zone_name")
		}

		// durations in milliseconds, drawn around the interesting boundaries
		durGen := rapid.OneOf(
			rapid.SampledFrom([]int64{0, 60000, -60000, 86400000, 86400000 + 60000, 86400000 - 60000, 1, -1, 59999, 60001, 30000, 1000}),
			rapid.Map(rapid.Int64Range(-10, 1450), func(m int64) int64 { return m * 60000 }),
			rapid.Int64Range(-100000, 90000000),
		)
		type msRange struct{ Start, End int64 }
		var days [7]*msRange
		valid := !badZone
		desc := []string{}
		for i := range days {
			if rapid.IntRange(0, 2).Draw(t, vfDayKeys[i]+"_absent") == 0 {
				continue
			}
			r := &msRange{durGen.Draw(t, vfDayKeys[i]+"_start"), durGen.Draw(t, vfDayKeys[i]+"_end")}
			days[i] = r
			ok := (r.Start == 0 && r.End == 0) ||
				(r.Start >= 0 && r.End > r.Start && r.End <= 86400000 && r.Start%60000 == 0 && r.End%60000 == 0)
			if !ok {
				valid = false
			}
			desc = append(desc, fmt.Sprintf("%s:%d-%d", vfDayKeys[i], r.Start, r.End))
		}

		viaYAML := rapid.Bool().Draw(t, "via_yaml")
		var err error
		w := &Weekly{}
		var text string
		if viaYAML {
			sb := &strings.Builder{}
			fmt.Fprintf(sb, "time_zone: %q\n", zone)
			for i, r := range days {
				if r != nil {
					fmt.Fprintf(sb, "%s:\n  start: %dms\n  end: %dms\n", vfDayKeys[i], r.Start, r.End)
				}
			}
			text = sb.String()
			err = yaml.Unmarshal([]byte(text), w)
		} else {
			m := map[string]any{"time_zone": zone}
			for i, r := range days {
				if r != nil {
					m[vfDayKeys[i]] = map[string]any{"start": r.Start, "end": r.End}
				}
			}
			b, _ := json.Marshal(m)
			text = string(b)
			err = json.Unmarshal(b, w)
		}

		vfC18.Eval()
		if valid {
			vfC18.Class("validation:valid")
		} else {
			vfC18.Class("validation:invalid")
			vfC18.Nontrivial(fmt.Sprintf("val|%s|%v|%t", zone, desc, viaYAML))
		}
		if vfC18.WantSample(fmt.Sprintf("validation_valid=%t", valid)) {
			vfC18.Sample(fmt.Sprintf("validation_valid=%t", valid), map[string]any{"text": text, "error": fmt.Sprint(err)})
		}

		if valid && err != nil {
			t.Fatalf("valid schedule rejected: %s: %v", text, err)
		}
		if !valid && err == nil {
			t.Fatalf("invalid schedule accepted: %s", text)
		}
	})
}

// TestVFC18Regress replays frozen failing cases without rapid.
func TestVFC18Regress(t *testing.T) {
	vfkit.Begin(t)
	type tc struct {
		zone string
		day  time.Weekday
		r    vfRange
		ts   string
	}
	cases := []tc{
		// fall-back day: 23:30 local is 24.5h after local midnight
		{"Europe/Berlin", time.Sunday, vfRange{0, 1440}, "2024-10-27T23:30:00+01:00"},
		// spring-forward day: 10:15 local is 9.25h after local midnight
		{"Europe/Berlin", time.Sunday, vfRange{570, 630}, "2024-03-31T10:15:00+02:00"},
		// zone whose DST starts at midnight: the local day starts at 01:00
		{"America/Havana", time.Sunday, vfRange{60, 120}, "2024-03-10T01:30:00-04:00"},
		{"Australia/Lord_Howe", time.Sunday, vfRange{0, 1440}, "2024-04-07T23:45:00+10:30"},
	}
	for _, c := range cases {
		loc, err := time.LoadLocation(c.zone)
		if err != nil {
			t.Fatal(err)
		}
		ts, err := time.Parse(time.RFC3339, c.ts)
		if err != nil {
			t.Fatal(err)
		}
		var days [7]vfRange
		days[c.day] = c.r
		w := &Weekly{}
		err = json.Unmarshal(vfScheduleJSON(c.zone, days), w)
		if err != nil {
			t.Fatal(err)
		}
		vfCheckContains(t, w, c.zone, loc, days, ts, "regress")
	}
}
